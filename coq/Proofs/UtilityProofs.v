(* C08 (JointUtility accessors) and C14 (element-wise utilities decompose their metric). *)
From Coq Require Import List Arith ZArith QArith Lia Bool Setoid Morphisms Permutation Lqa.
From DS Require Import Util.SumQ Util.ListX Spec.Shapley Model.Provenance Model.Neighbor Model.Utility
     Proofs.ShapleyAxioms Proofs.KernelFull Proofs.ProvRowwise.
Import ListNotations.
Local Open Scope Q_scope.

Lemma nthQ_map_seq (f : nat -> Q) n j : (j < n)%nat -> nthQ (map f (seq 0 n)) j = f j.
Proof. intros H. unfold nthQ. apply map_nth_seq. exact H. Qed.

Theorem joint_components_in (ws : list Q) (tables : list (list (list Q))) (nulls : list (list Q)) c j :
  ((c < fst (tshape tables))%nat -> (j < snd (tshape tables))%nat ->
   nthQ (nthL (joint_table ws tables) c) j == sumQ (fun wt => fst wt * nthQ (nthL (snd wt) c) j) (combine ws tables)) /\
  ((j < length (hd [] nulls))%nat ->
   nthQ (joint_vector ws nulls) j == sumQ (fun wv => fst wv * nthQ (snd wv) j) (combine ws nulls)).
Proof.
  split.
  - intros Hc Hj. unfold joint_table, nthL.
    rewrite (nth_indep _ [] ((fun c => map (fun j => sumQ (fun wt => fst wt * nthQ (nth c (snd wt) []) j) (combine ws tables))
                                         (seq 0 (snd (tshape tables)))) 0%nat))
      by (rewrite map_length, seq_length; exact Hc).
    rewrite (map_nth (fun c => map (fun j => sumQ (fun wt => fst wt * nthQ (nth c (snd wt) []) j) (combine ws tables))
                               (seq 0 (snd (tshape tables))))), seq_nth by exact Hc.
    cbn [Nat.add]. rewrite nthQ_map_seq by exact Hj. reflexivity.
  - intros Hj. unfold joint_vector. rewrite nthQ_map_seq by exact Hj. reflexivity.
Qed.

Theorem joint_score_spec (ws : list Q) (rs : list (option Q)) (null : Q) :
  (forallb (fun r => match r with Some _ => true | None => false end) rs = true ->
     joint_score ws rs null == sumQ (fun wr => fst wr * match snd wr with Some x => x | None => 0 end) (combine ws rs)) /\
  (forallb (fun r => match r with Some _ => true | None => false end) rs = false -> joint_score ws rs null = null).
Proof. unfold joint_score. split; intros H; rewrite H; reflexivity. Qed.

(* ====================== C14: element-wise utilities decompose their metric ====================== *)

Lemma classes_in labels l : In l (classes labels) <-> In l labels.
Proof. unfold classes. apply in_sorted_distinct. Qed.

(* accuracy: the picked entry of a prediction is the indicator of a correct prediction *)
Lemma acc_picked_entry train yt j y p : In p train -> nth_error yt j = Some y ->
  nthQ (nthL (acc_table train yt) (encode_label train p)) j = if Z.eqb p y then 1 else 0.
Proof.
  intros Hp Hj. unfold acc_table, nthL, encode_label.
  assert (Hin : In p (classes train)) by (apply classes_in; exact Hp).
  set (f := fun c => map (fun y0 => if Z.eqb c y0 then 1 else 0) yt).
  rewrite (nth_indep _ [] (f 0%Z)) by (rewrite map_length; apply position_lt; exact Hin).
  rewrite (map_nth f), position_nth by exact Hin. unfold f, nthQ.
  apply nth_error_split in Hj as [l1 [l2 [-> <-]]]. rewrite map_app, app_nth2; rewrite map_length; [|lia].
  rewrite Nat.sub_diag. reflexivity.
Qed.

Lemma sumQ_indicator_count {A} (pr : A -> bool) (l : list A) :
  sumQ (fun a => if pr a then 1 else 0) l == qn (length (filter pr l)).
Proof.
  induction l as [|a l IH]; [reflexivity|]. rewrite sumQ_cons, IH. cbn [filter].
  destruct (pr a); [cbn [length]; rewrite qn_S; ring|ring].
Qed.

Lemma accuracy_mean_aux train : forall (yp yt pre : list Z), length yp = length yt -> (forall p, In p yp -> In p train) ->
  sumQ (fun jp : nat * Z => nthQ (nthL (acc_table train (pre ++ yt)) (encode_label train (snd jp))) (fst jp))
       (combine (seq (length pre) (length yp)) yp)
  == sumQ (fun yp0 : Z * Z => if Z.eqb (fst yp0) (snd yp0) then 1 else 0) (combine yt yp).
Proof.
  induction yp as [|p yp IH]; intros yt pre Hlen Hin; destruct yt as [|y yt]; try discriminate; [reflexivity|].
  cbn [length seq combine]. rewrite !sumQ_cons. cbn [fst snd].
  rewrite (acc_picked_entry train (pre ++ y :: yt) (length pre) y p); [|apply Hin; left; reflexivity|].
  2:{ rewrite nth_error_app2 by lia. rewrite Nat.sub_diag. reflexivity. }
  replace (pre ++ y :: yt) with ((pre ++ [y]) ++ yt) by (rewrite <- app_assoc; reflexivity).
  replace (S (length pre)) with (length (pre ++ [y])) by (rewrite app_length; cbn; lia).
  rewrite (IH yt (pre ++ [y])); [|cbn in Hlen; lia|intros q Hq; apply Hin; right; exact Hq].
  rewrite Z.eqb_sym. reflexivity.
Qed.

Theorem accuracy_mean train yt yp : length yp = length yt -> (forall p, In p yp -> In p train) ->
  sumQ (fun x => x) (picked (acc_table train yt) train yp) / qn (length yt) == accuracy yt yp.
Proof.
  intros Hlen Hin. unfold accuracy. apply Qmult_comp; [|reflexivity]. unfold picked. rewrite sumQ_map.
  rewrite <- (sumQ_indicator_count (fun yp0 : Z * Z => Z.eqb (fst yp0) (snd yp0))).
  exact (accuracy_mean_aux train yp yt [] Hlen Hin).
Qed.

(* accuracy null: the element-wise null vector is the indicator of a training class of minimal count, so its mean
   is the lowest accuracy achievable by predicting one training class everywhere = null_score *)
Lemma acc_null_class_spec ys : forall cs best,
  match acc_null_class cs ys best with
  | Some c => (In c cs \/ best = Some c) /\ (forall c', In c' cs -> (count_eq c ys <= count_eq c' ys)%nat) /\
              (forall b, best = Some b -> (count_eq c ys <= count_eq b ys)%nat)
  | None => cs = [] /\ best = None
  end.
Proof.
  induction cs as [|c t IH]; intros best; cbn [acc_null_class].
  - destruct best as [b|]; [|split; reflexivity]. split; [right; reflexivity|]. split; [intros c' []|intros b' E; injection E as ->; lia].
  - destruct best as [b|].
    + destruct (Nat.ltb_spec (count_eq c ys) (count_eq b ys)) as [Hlt|Hge].
      * specialize (IH (Some c)). destruct (acc_null_class t ys (Some c)) as [r|]; [|destruct IH; discriminate].
        destruct IH as [H1 [H2 H3]]. split; [destruct H1 as [H1|H1]; [left; right; exact H1|injection H1 as ->; left; left; reflexivity]|].
        split; [intros c' [<-|Hc']; [apply H3; reflexivity|apply H2; exact Hc']|].
        intros b' E. injection E as ->. specialize (H3 c eq_refl). lia.
      * specialize (IH (Some b)). destruct (acc_null_class t ys (Some b)) as [r|]; [|destruct IH; discriminate].
        destruct IH as [H1 [H2 H3]]. split; [destruct H1 as [H1|H1]; [left; right; exact H1|right; exact H1]|].
        split; [intros c' [<-|Hc']; [specialize (H3 b eq_refl); lia|apply H2; exact Hc']|exact H3].
    + specialize (IH (Some c)). destruct (acc_null_class t ys (Some c)) as [r|]; [|destruct IH; discriminate].
      destruct IH as [H1 [H2 H3]]. split; [destruct H1 as [H1|H1]; [left; right; exact H1|injection H1 as ->; left; left; reflexivity]|].
      split; [intros c' [<-|Hc']; [apply H3; reflexivity|apply H2; exact Hc']|intros b E; discriminate].
Qed.

Lemma qmin_list_spec : forall l d, l <> [] -> In (qmin_list l d) l /\ forall x, In x l -> qmin_list l d <= x.
Proof.
  induction l as [|a t IH]; intros d Hne; [contradiction|]. cbn [qmin_list]. destruct t as [|b t'].
  - cbn [qmin_list]. rewrite (proj2 (Qle_bool_iff a a)) by apply Qle_refl. split; [left; reflexivity|intros x [<-|[]]; apply Qle_refl].
  - destruct (IH a ltac:(discriminate)) as [Hin Hmin]. destruct (Qle_bool a (qmin_list (b :: t') a)) eqn:E.
    + apply Qle_bool_iff in E. split; [left; reflexivity|]. intros x [<-|Hx]; [apply Qle_refl|].
      apply (Qle_trans _ (qmin_list (b :: t') a)); [exact E|apply Hmin; exact Hx].
    + assert (Hlt : qmin_list (b :: t') a < a). { apply Qnot_le_lt. intros Hc. apply Qle_bool_iff in Hc. congruence. }
      split; [right; exact Hin|]. intros x [<-|Hx]; [apply Qlt_le_weak; exact Hlt|apply Hmin; exact Hx].
Qed.

Lemma sumQ_id_map {A} (f : A -> Q) l : sumQ (fun x => x) (map f l) = sumQ f l.
Proof. exact (sumQ_map f (fun x => x) l). Qed.

Lemma qn_le a b : (a <= b)%nat -> qn a <= qn b.
Proof. intros H. unfold qn. rewrite <- Zle_Qle. lia. Qed.

Theorem accuracy_null train yt : train <> [] -> yt <> [] ->
  sumQ (fun x => x) (acc_null_vector train yt) / qn (length yt) == acc_null_score train yt /\
  (forall c, In c train -> acc_null_score train yt <= acc_of_const c yt) /\
  (exists c, In c train /\ acc_null_score train yt == acc_of_const c yt).
Proof.
  intros Htr Hyt. unfold acc_null_vector, acc_null_score.
  assert (Hcs : classes train <> []).
  { destruct train as [|a t]; [contradiction|]. intros E. assert (In a (classes (a :: t))) by (apply classes_in; left; reflexivity).
    rewrite E in H. destruct H. }
  pose proof (acc_null_class_spec yt (classes train) None) as Hs.
  destruct (acc_null_class (classes train) yt None) as [c|]; [|destruct Hs as [E _]; contradiction].
  destruct Hs as [[Hc|Hc] [Hmin _]]; [|discriminate].
  destruct (classes train) as [|c0 t0] eqn:Ecl; [contradiction|].
  assert (Hpos : 0 < qn (length yt)) by (apply qn_pos; destruct yt; [contradiction|cbn; lia]).
  destruct (qmin_list_spec (map (fun c1 => acc_of_const c1 yt) (c0 :: t0)) 0 ltac:(discriminate)) as [Hin Hle].
  set (m := qmin_list (map (fun c1 => acc_of_const c1 yt) (c0 :: t0)) 0) in *.
  assert (Hvec : sumQ (fun x => x) (map (fun y => if Z.eqb c y then 1 else 0) yt) / qn (length yt) == acc_of_const c yt).
  { rewrite sumQ_id_map. unfold acc_of_const, count_eq. rewrite (sumQ_indicator_count (Z.eqb c)). reflexivity. }
  assert (Hm : m == acc_of_const c yt).
  { apply Qle_antisym.
    - apply Hle. apply (in_map (fun c1 => acc_of_const c1 yt)). exact Hc.
    - apply in_map_iff in Hin as [c1 [E1 Hc1]]. rewrite <- E1. unfold acc_of_const.
      apply Qmult_le_compat_r; [apply qn_le, Hmin; exact Hc1|]. apply Qlt_le_weak, Qinv_lt_0_compat; exact Hpos. }
  split; [rewrite Hvec, Hm; reflexivity|]. split.
  - intros c1 Hc1. apply Hle. apply (in_map (fun c2 => acc_of_const c2 yt)). rewrite <- Ecl. apply classes_in. exact Hc1.
  - exists c. split; [apply classes_in; rewrite Ecl; exact Hc|exact Hm].
Qed.

(* ---------------- binary ROC-AUC ---------------- *)
Definition binary (a b : Z) (ys : list Z) : Prop := a <> b /\ forall y, In y ys -> y = a \/ y = b.

Lemma count_binary a b ys : binary a b ys -> (count_eq a ys + count_eq b ys = length ys)%nat.
Proof.
  intros [Hab H]. unfold count_eq. induction ys as [|y t IH]; [reflexivity|]. cbn [filter length].
  assert (Ht : forall y0, In y0 t -> y0 = a \/ y0 = b) by (intros y0 Hy; apply H; right; exact Hy).
  specialize (IH Ht). destruct (H y (or_introl eq_refl)) as [-> | ->].
  - rewrite Z.eqb_refl. destruct (Z.eqb_spec b a) as [E|_]; [congruence|]. cbn [length]. lia.
  - rewrite Z.eqb_refl. destruct (Z.eqb_spec a b) as [E|_]; [congruence|]. cbn [length]. lia.
Qed.

(* each entry of the table: [k = y] / (2 * #(validation points with label y)) *)
Lemma auc_entry_binary a b ys k y : binary a b ys -> (0 < count_eq a ys)%nat -> (0 < count_eq b ys)%nat -> (y = a \/ y = b) ->
  auc_entry [a; b] ys k y == (if Z.eqb k y then 1 else 0) / (2 * qn (count_eq y ys)).
Proof.
  intros Hbin Ha Hb Hy. pose proof (count_binary a b ys Hbin) as Hc. destruct Hbin as [Hab _].
  unfold auc_entry. rewrite !sumQ_cons, sumQ_nil. cbn [length].
  assert (Hpa : 0 < qn (count_eq a ys)) by (apply qn_pos; exact Ha).
  assert (Hpb : 0 < qn (count_eq b ys)) by (apply qn_pos; exact Hb).
  replace (length ys - count_eq a ys)%nat with (count_eq b ys) by lia.
  replace (length ys - count_eq b ys)%nat with (count_eq a ys) by lia.
  assert (H2 : qn 2 == 2) by reflexivity. rewrite H2.
  destruct Hy as [->| ->].
  - rewrite Z.eqb_refl. destruct (Z.eqb_spec b a) as [E|_]; [congruence|]. destruct (Z.eqb k a); field; lra.
  - rewrite Z.eqb_refl. destruct (Z.eqb_spec a b) as [E|_]; [congruence|]. destruct (Z.eqb k b); field; lra.
Qed.

Lemma auc_picked_entry train yt j y p : In p train -> nth_error yt j = Some y ->
  nthQ (nthL (auc_table train yt) (encode_label train p)) j = auc_entry (classes train) yt p y.
Proof.
  intros Hp Hj. unfold auc_table, nthL, encode_label.
  assert (Hin : In p (classes train)) by (apply classes_in; exact Hp).
  set (f := fun k => map (auc_entry (classes train) yt k) yt).
  rewrite (nth_indep _ [] (f 0%Z)) by (rewrite map_length; apply position_lt; exact Hin).
  rewrite (map_nth f), position_nth by exact Hin. unfold f, nthQ.
  apply nth_error_split in Hj as [l1 [l2 [E <-]]]. rewrite E at 2. rewrite map_app, app_nth2; rewrite map_length; [|lia].
  rewrite Nat.sub_diag. reflexivity.
Qed.

Lemma picked_auc_sum train : forall (yp yt pre : list Z), length yp = length yt -> (forall p, In p yp -> In p train) ->
  sumQ (fun jp : nat * Z => nthQ (nthL (auc_table train (pre ++ yt)) (encode_label train (snd jp))) (fst jp))
       (combine (seq (length pre) (length yp)) yp)
  == sumQ (fun yp0 : Z * Z => auc_entry (classes train) (pre ++ yt) (snd yp0) (fst yp0)) (combine yt yp).
Proof.
  induction yp as [|p yp IH]; intros yt pre Hlen Hin; destruct yt as [|y yt]; try discriminate; [reflexivity|].
  cbn [length seq combine]. rewrite !sumQ_cons. cbn [fst snd].
  rewrite (auc_picked_entry train (pre ++ y :: yt) (length pre) y p); [|apply Hin; left; reflexivity|].
  2:{ rewrite nth_error_app2 by lia. rewrite Nat.sub_diag. reflexivity. }
  replace (pre ++ y :: yt) with ((pre ++ [y]) ++ yt) by (rewrite <- app_assoc; reflexivity).
  replace (S (length pre)) with (length (pre ++ [y])) by (rewrite app_length; cbn; lia).
  rewrite (IH yt (pre ++ [y])); [reflexivity|cbn in Hlen; lia|intros q Hq; apply Hin; right; exact Hq].
Qed.

Lemma sumQ_combine_in {A B} (f g : A * B -> Q) (l1 : list A) (l2 : list B) :
  (forall x, In x (combine l1 l2) -> f x == g x) -> sumQ f (combine l1 l2) == sumQ g (combine l1 l2).
Proof. apply sumQ_ext. Qed.

(* the element-wise scores of any hard prediction vector sum to (TPR + TNR) / 2, the ROC-AUC of a hard prediction *)
Theorem auc_sum train yt yp a b : classes train = [a; b] -> binary a b yt ->
  (0 < count_eq a yt)%nat -> (0 < count_eq b yt)%nat -> length yp = length yt -> (forall p, In p yp -> p = a \/ p = b) ->
  sumQ (fun x => x) (picked (auc_table train yt) train yp) == balanced_acc2 yt yp a b.
Proof.
  intros Hcl Hbin Ha Hb Hlen Hp. unfold picked. rewrite sumQ_map.
  assert (Hin : forall p, In p yp -> In p train).
  { intros p Hpp. apply classes_in. rewrite Hcl. destruct (Hp p Hpp) as [->| ->]; [left|right; left]; reflexivity. }
  rewrite (picked_auc_sum train yp yt [] Hlen Hin). cbn [app]. rewrite Hcl.
  pose proof Hbin as [Hab Hys].
  assert (Hpa : 0 < qn (count_eq a yt)) by (apply qn_pos; exact Ha).
  assert (Hpb : 0 < qn (count_eq b yt)) by (apply qn_pos; exact Hb).
  rewrite (sumQ_ext _ (fun yp0 : Z * Z =>
     (1 / (2 * qn (count_eq a yt))) * (if Z.eqb (fst yp0) a && Z.eqb (snd yp0) a then 1 else 0)
     + (1 / (2 * qn (count_eq b yt))) * (if Z.eqb (fst yp0) b && Z.eqb (snd yp0) b then 1 else 0))).
  - rewrite sumQ_plus, !sumQ_scale.
    rewrite (sumQ_indicator_count (fun yp0 : Z * Z => Z.eqb (fst yp0) a && Z.eqb (snd yp0) a)).
    rewrite (sumQ_indicator_count (fun yp0 : Z * Z => Z.eqb (fst yp0) b && Z.eqb (snd yp0) b)).
    unfold balanced_acc2, rate. field. split; lra.
  - intros [y p] Hyp. cbn [fst snd]. assert (Hy : y = a \/ y = b) by (apply Hys; apply in_combine_l in Hyp; exact Hyp).
    rewrite (auc_entry_binary a b yt p y Hbin Ha Hb Hy).
    destruct Hy as [->| ->].
    + rewrite Z.eqb_refl. destruct (Z.eqb_spec a b) as [E|_]; [congruence|]. cbn [andb]. destruct (Z.eqb p a); field; lra.
    + rewrite Z.eqb_refl. destruct (Z.eqb_spec b a) as [E|_]; [congruence|]. cbn [andb]. destruct (Z.eqb p b); field; lra.
Qed.

(* the element-wise null scores sum to 1/2, the ROC-AUC of any constant prediction *)
Theorem auc_null_sum yt a b : classes yt = [a; b] -> binary a b yt -> (0 < count_eq a yt)%nat -> (0 < count_eq b yt)%nat ->
  sumQ (fun x => x) (auc_null_vector yt) == 1 # 2.
Proof.
  intros Hcl Hbin Ha Hb. unfold auc_null_vector. rewrite Hcl.
  assert (Hs : exists s, least_frequent [a; b] yt None = Some s /\ (s = a \/ s = b)).
  { cbn [least_frequent]. destruct (Nat.ltb (count_eq b yt) (count_eq a yt)); eexists; split; try reflexivity; auto. }
  destruct Hs as [s [-> Hsab]]. rewrite sumQ_id_map. pose proof Hbin as [Hab Hys].
  assert (Hps : 0 < qn (count_eq s yt)) by (apply qn_pos; destruct Hsab as [->| ->]; assumption).
  rewrite (sumQ_ext _ (fun y => (1 / (2 * qn (count_eq s yt))) * (if Z.eqb s y then 1 else 0))).
  - rewrite sumQ_scale, (sumQ_indicator_count (Z.eqb s)). fold (count_eq s yt). field. lra.
  - intros y Hy. rewrite (auc_entry_binary a b yt s y Hbin Ha Hb (Hys y Hy)).
    destruct (Z.eqb_spec s y) as [->|Hne]; field; [lra|].
    assert (0 < qn (count_eq y yt)) by (apply qn_pos; destruct (Hys y Hy) as [->| ->]; assumption). lra.
Qed.
