(* C08 (JointUtility accessors) and C14 (element-wise utilities decompose their metric). *)
From Coq Require Import List Arith ZArith QArith Lia Bool Setoid Morphisms Permutation Lqa.
From DS Require Import Util.SumQ Util.ListX Spec.Shapley Model.Provenance Model.Neighbor Model.Utility
     Proofs.ShapleyAxioms Proofs.KernelFull Proofs.ProvRowwise.
Import ListNotations.
Local Open Scope Q_scope.

Lemma nthQ_map_seq (f : nat -> Q) n j : (j < n)%nat -> nthQ (map f (seq 0 n)) j = f j.
Proof. intros H. unfold nthQ. apply map_nth_seq. exact H. Qed.

Theorem joint_components_in (ws : list Q) (tables : list (list (list Q))) (nulls : list (list Q)) c j :
  ((c < fst (tshape tables))%nat -> (j < snd (tshape tables))%nat ->
   nthQ (nthL (joint_table ws tables) c) j == sumQ (fun wt => fst wt * nthQ (nthL (snd wt) c) j) (combine ws tables)) /\
  ((j < length (hd [] nulls))%nat ->
   nthQ (joint_vector ws nulls) j == sumQ (fun wv => fst wv * nthQ (snd wv) j) (combine ws nulls)).
Proof.
  split.
  - intros Hc Hj. unfold joint_table, nthL.
    rewrite (nth_indep _ [] ((fun c => map (fun j => sumQ (fun wt => fst wt * nthQ (nth c (snd wt) []) j) (combine ws tables))
                                         (seq 0 (snd (tshape tables)))) 0%nat))
      by (rewrite map_length, seq_length; exact Hc).
    rewrite (map_nth (fun c => map (fun j => sumQ (fun wt => fst wt * nthQ (nth c (snd wt) []) j) (combine ws tables))
                               (seq 0 (snd (tshape tables))))), seq_nth by exact Hc.
    cbn [Nat.add]. rewrite nthQ_map_seq by exact Hj. reflexivity.
  - intros Hj. unfold joint_vector. rewrite nthQ_map_seq by exact Hj. reflexivity.
Qed.

Theorem joint_score_spec (ws : list Q) (rs : list (option Q)) (null : Q) :
  (forallb (fun r => match r with Some _ => true | None => false end) rs = true ->
     joint_score ws rs null == sumQ (fun wr => fst wr * match snd wr with Some x => x | None => 0 end) (combine ws rs)) /\
  (forallb (fun r => match r with Some _ => true | None => false end) rs = false -> joint_score ws rs null = null).
Proof. unfold joint_score. split; intros H; rewrite H; reflexivity. Qed.
