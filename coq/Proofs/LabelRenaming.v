(* C07, label-renaming clause in full: under an injective renaming of the class labels the K=1 neighbor scores of the
   accuracy utility are unchanged, whatever the renaming does to the sort order of the classes and to the choice among
   tied classes made by the null vector -- the scores depend on the null vector only through its sum. *)
From Coq Require Import List Arith ZArith QArith Lia Bool Setoid Permutation Lqa.
From DS Require Import Util.SumQ Spec.Shapley Spec.NNGame Model.Kernel Model.Neighbor
     Proofs.ShapleyAxioms Proofs.KernelShapley Proofs.KernelFull Proofs.KernelInvariance.
Import ListNotations.
Local Open Scope Q_scope.

Lemma vnn_present u1 u2 nu1 nu2 m : (forall q, u1 q == u2 q) -> forall l, existsb (fun q => nth q m false) l = true ->
  vnn u1 nu1 l m == vnn u2 nu2 l m.
Proof.
  intros Hu. induction l as [|q t IH]; intros H; [discriminate|]. cbn [vnn existsb] in *.
  destruct (nth q m false); [apply Hu|]. apply IH. exact H.
Qed.
Lemma vnn_absent u nu m : forall l, existsb (fun q => nth q m false) l = false -> vnn u nu l m = nu.
Proof.
  induction l as [|q t IH]; intros H; [reflexivity|]. cbn [vnn existsb] in *. destruct (nth q m false); [discriminate|]. apply IH. exact H.
Qed.
Lemma existsb_perm {A} (f : A -> bool) l l' : Permutation l l' -> existsb f l = existsb f l'.
Proof.
  intros P. induction P as [|x l l' P IH|x y l|l l' l'' P1 IH1 P2 IH2]; cbn [existsb]; try congruence.
  destruct (f x), (f y); reflexivity.
Qed.

Definition pointwise_eq (u u' : nat -> Q) : Prop := forall q, u q == u' q.

Lemma sum_points_present m : forall orders us us' nulls nulls',
  Forall2 pointwise_eq us us' -> length nulls' = length nulls ->
  (forall l, In l orders -> existsb (fun q => nth q m false) l = true) ->
  sumQ (fun t : point => vnn (fst (fst t)) (snd (fst t)) (snd t) m) (combine (combine us' nulls') orders)
  == sumQ (fun t : point => vnn (fst (fst t)) (snd (fst t)) (snd t) m) (combine (combine us nulls) orders).
Proof.
  induction orders as [|l orders IH]; intros us us' nulls nulls' HF HL HE.
  - rewrite !combine_nil. reflexivity.
  - destruct HF as [|u u' us us' Hu HF]; [reflexivity|].
    destruct nulls as [|nu nulls], nulls' as [|nu' nulls']; try discriminate; [reflexivity|].
    cbn [combine]. rewrite !sumQ_cons. cbn [fst snd].
    rewrite (IH us us' nulls nulls' HF) by (try (cbn in HL; lia); intros l' Hl'; apply HE; right; exact Hl').
    rewrite (vnn_present u' u nu' nu m) by (try (intros q; symmetry; apply Hu); apply HE; left; reflexivity). reflexivity.
Qed.
Lemma sum_points_absent m : forall orders (us : list (nat -> Q)) nulls,
  length us = length nulls -> length orders = length nulls ->
  (forall l, In l orders -> existsb (fun q => nth q m false) l = false) ->
  sumQ (fun t : point => vnn (fst (fst t)) (snd (fst t)) (snd t) m) (combine (combine us nulls) orders) == sumQ (fun x => x) nulls.
Proof.
  induction orders as [|l orders IH]; intros us nulls H1 H2 HE.
  - destruct nulls; [|discriminate]. rewrite combine_nil. reflexivity.
  - destruct nulls as [|nu nulls]; [discriminate|]. destruct us as [|u us]; [discriminate|]. cbn [combine]. rewrite !sumQ_cons. cbn [fst snd].
    rewrite (vnn_absent u nu m l) by (apply HE; left; reflexivity).
    rewrite IH by (try (cbn in H1, H2; lia); intros l' Hl'; apply HE; right; exact Hl'). reflexivity.
Qed.

(* the scores depend on the null vector only through its sum *)
Theorem kernel_null_sum n us us' nulls nulls' orders p :
  Forall2 pointwise_eq us us' -> length us = length nulls -> length nulls' = length nulls -> length orders = length nulls ->
  sumQ (fun x => x) nulls' == sumQ (fun x => x) nulls ->
  (forall l, In l orders -> Permutation l (seq 0 n)) ->
  nth p (kernel n us' nulls' orders) 0 == nth p (kernel n us nulls orders) 0.
Proof.
  intros HF H1 H2 H3 HS HP.
  assert (HF' : length us' = length us) by (clear - HF; induction HF; cbn; congruence).
  destruct (Nat.lt_ge_cases p n) as [Hp|Hp]; [|unfold kernel; rewrite !kernel_t_nth_out by exact Hp; reflexivity].
  assert (Lp : length (points us nulls orders) = length nulls) by (unfold points, point; rewrite !combine_length; lia).
  assert (Lp' : length (points us' nulls' orders) = length nulls) by (unfold points, point; rewrite !combine_length; lia).
  destruct nulls as [|nu0 nulls0] eqn:En.
  - destruct nulls'; [|discriminate]. destruct orders; [|discriminate]. unfold kernel. rewrite !combine_nil. reflexivity.
  - rewrite <- En in *.
    rewrite !kernel_is_shapley_mean; try assumption; try (intros E; rewrite E in *; rewrite En in *; cbn in *; discriminate).
    rewrite <- !shapley_bf_marginal by exact Hp. apply shapley_bf_ext. intros m Hm.
    unfold vnn_mean, vnn_mean_t. rewrite Lp, Lp'. apply Qmult_comp; [|reflexivity]. unfold points.
    destruct (existsb (fun q => nth q m false) (seq 0 n)) eqn:E.
    + apply sum_points_present; [exact HF|exact H2|]. intros l Hl. rewrite (existsb_perm _ l (seq 0 n) (HP l Hl)). exact E.
    + rewrite !sum_points_absent; try lia; try exact HS; intros l Hl; rewrite (existsb_perm _ l (seq 0 n) (HP l Hl)); exact E.
Qed.

(* the label-renaming clause *)
Theorem label_renaming (g : Z -> Z) n labels owner dist ys nulls nulls' orders p :
  (forall a b, g a = g b -> a = b) -> length owner = length labels ->
  length dist = length nulls -> length ys = length nulls -> length nulls' = length nulls -> length orders = length nulls ->
  sumQ (fun x => x) nulls' == sumQ (fun x => x) nulls ->
  (forall l, In l orders -> Permutation l (seq 0 n)) ->
  nth p (neighbor1 n (map g labels) owner dist (map (fun y => acc_col (map g labels) (g y)) ys) nulls' orders) 0
  == nth p (neighbor1 n labels owner dist (map (acc_col labels) ys) nulls orders) 0.
Proof.
  intros Hinj Hlen L1 L2 L3 L4 HS HP. unfold neighbor1. apply kernel_null_sum; try assumption.
  - clear - Hinj Hlen. revert ys. induction dist as [|d dist IH]; intros ys; [constructor|]. destruct ys as [|y ys]; [constructor|].
    cbn [map combine]. constructor; [|apply IH]. intros q. cbn [fst snd]. rewrite acc_unit_utility_renaming by assumption. reflexivity.
  - rewrite map_length, combine_length, map_length. lia.
Qed.
