(* C19 / C01: the "simple" flag of a provenance container (finding F19).  Provenance(units=n) sets is_simple, and the 'neighbor'
   method (K=1) then skips the per-unit reduction, reading row i as owned by unit i.  The flag is therefore a PROMISE about the
   rows: simple_sound.  The repaired __setitem__ / __delitem__ (hence insert, append, extend, pop, reverse, slice deletion, which
   go through them) clear the flag; the pinned code never did. *)
From Coq Require Import List Arith ZArith Bool Lia.
From DS Require Import Spec.Dnf Model.Provenance Model.ProvOps Proofs.ProvRefine.
Import ListNotations.

Record sprov := mkS { sp : prov; simple : bool }.
Definition default_formulas (n : nat) : list dnf := map (fun i => [[(i, 1)]]) (seq 0 n).
Definition s_default (n : nat) : sprov := mkS (default_prov n) true.
(* every edit of the repaired container clears the flag; the pinned container kept it *)
Definition s_apply (s : sprov) (o : op) : sprov := mkS (apply_op (sp s) o) false.
Definition s_apply_pinned (s : sprov) (o : op) : sprov := mkS (apply_op (sp s) o) (simple s).
Definition s_run (s : sprov) (ops : list op) : sprov := fold_left s_apply ops s.

(* the promise: a container flagged simple holds exactly the default formulas (row i: unit i = candidate 1) *)
Definition simple_sound (s : sprov) : Prop := simple s = true -> view (sp s) = default_formulas (plen (sp s)).

Lemma view_default n : view (default_prov n) = default_formulas n.
Proof.
  unfold view, default_prov, default_formulas. cbn [prow]. rewrite map_map. apply map_ext_in. intros i _.
  assert (E : (Z.of_nat i =? -1)%Z = false) by (apply Z.eqb_neq; lia).
  unfold decode_row, decode_conj, cell_is_pad, cell_has_pad, lit_of_cell. cbn [filter forallb fst snd map negb andb orb].
  rewrite E. cbn [andb orb negb filter map fst snd forallb]. rewrite E. cbn. rewrite Nat2Z.id. reflexivity.
Qed.

Theorem simple_sound_default n : simple_sound (s_default n).
Proof.
  intros _. cbn [s_default sp]. rewrite view_default. unfold plen, default_prov. cbn [prow]. rewrite map_length, seq_length. reflexivity.
Qed.
Theorem simple_sound_step s o : simple_sound (s_apply s o).
Proof. intros H. discriminate H. Qed.
Theorem simple_sound_run : forall ops s, simple_sound s -> simple_sound (s_run s ops).
Proof.
  induction ops as [|o ops IH]; intros s Hs; [exact Hs|]. cbn [s_run fold_left]. apply IH. apply simple_sound_step.
Qed.

(* F19: with the pinned code one assignment breaks the promise (Provenance(units=2); p[0] = p[1]) *)
Theorem simple_refuted_F19 : exists n o, legal n (default_formulas n) o /\ ~ simple_sound (s_apply_pinned (s_default n) o).
Proof.
  exists 2, (OSet 0 [[(1, 1)]]). split.
  - split; [cbn; lia|]. split; [discriminate|]. split.
    + intros c Hc. destruct Hc as [<-|[]]. discriminate.
    + intros c l Hc Hl. destruct Hc as [<-|[]]. destruct Hl as [<-|[]]. cbn. lia.
  - intros H. specialize (H eq_refl). vm_compute in H. discriminate H.
Qed.

(* ---------- what the flag is used for: the fast path of get_unit_labels_and_distances ---------- *)
From Coq Require Import QArith.
From DS Require Import Model.Neighbor.
Local Close Scope Q_scope.
Local Open Scope nat_scope.

(* when row r is owned by unit r (the default provenance), the per-unit reduction is the identity: unit p's nearest row is row p
   itself, so its label is labels[p] and its distance distances[p] -- what the fast path returns without reducing *)
Lemma rows_of_identity n p : p < n -> rows_of (seq 0 n) p = [p].
Proof.
  intros Hp. unfold rows_of. rewrite seq_length.
  assert (G : forall m s, s + m <= n -> filter (fun r => Nat.eqb (nth r (seq 0 n) 0) p) (seq s m)
                          = if (Nat.leb s p && Nat.ltb p (s + m))%bool then [p] else []).
  { induction m as [|m IH]; intros s Hsm.
    - cbn [seq filter]. destruct (Nat.leb s p) eqn:E1; cbn [andb]; [|reflexivity].
      replace (Nat.ltb p (s + 0)) with false; [reflexivity|]. symmetry. apply Nat.ltb_ge. apply Nat.leb_le in E1. lia.
    - cbn [seq filter]. rewrite IH by lia.
      destruct (Nat.lt_ge_cases s n) as [Hs|Hs]; [|lia].
      + rewrite seq_nth by exact Hs. change (0 + s) with s. destruct (Nat.eqb s p) eqn:E.
        * apply Nat.eqb_eq in E. subst s. replace (Nat.leb (S p) p) with false by (symmetry; apply Nat.leb_gt; lia). cbn [andb].
          rewrite Nat.leb_refl. replace (Nat.ltb p (p + S m)) with true by (symmetry; apply Nat.ltb_lt; lia). reflexivity.
        * apply Nat.eqb_neq in E. replace (S s + m) with (s + S m) by lia.
          destruct (Nat.leb (S s) p) eqn:E1.
          -- apply Nat.leb_le in E1. replace (Nat.leb s p) with true by (symmetry; apply Nat.leb_le; lia). reflexivity.
          -- apply Nat.leb_gt in E1. cbn [andb]. destruct (Nat.leb s p) eqn:E2; cbn [andb]; [|reflexivity]. apply Nat.leb_le in E2. lia. }
  rewrite G by lia. cbn [Nat.leb andb Nat.add]. replace (Nat.ltb p n) with true by (symmetry; apply Nat.ltb_lt; exact Hp). reflexivity.
Qed.

Theorem fast_path_is_reduction n (d : nat -> Q) p : p < n ->
  unit_row (seq 0 n) d p = Some p /\ unit_dist (seq 0 n) d p = d p.
Proof.
  intros Hp. unfold unit_dist, unit_row. rewrite rows_of_identity by exact Hp. cbn [argmin_first]. split; reflexivity.
Qed.
Theorem fast_path_utility n labels dist_j Ucol p : p < n ->
  unit_utility labels (seq 0 n) dist_j Ucol p = nthQ Ucol (encode_label labels (nth p labels 0%Z)).
Proof. intros Hp. unfold unit_utility. rewrite (proj1 (fast_path_is_reduction n (nthQ dist_j) p Hp)). reflexivity. Qed.

Theorem simple_fast_path n labels dist_j Ucol p : p < n ->
  unit_row (seq 0 n) (nthQ dist_j) p = Some p /\ unit_dist (seq 0 n) (nthQ dist_j) p = nthQ dist_j p
  /\ unit_utility labels (seq 0 n) dist_j Ucol p = nthQ Ucol (encode_label labels (nth p labels 0%Z)).
Proof.
  intros Hp. destruct (fast_path_is_reduction n (nthQ dist_j) p Hp) as [A B].
  split; [exact A|]. split; [exact B|]. exact (fast_path_utility n labels dist_j Ucol p Hp).
Qed.
