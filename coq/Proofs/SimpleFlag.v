(* C19 / C01: the "simple" flag of a provenance container (finding F19).  Provenance(units=n) sets is_simple, and the 'neighbor'
   method (K=1) then skips the per-unit reduction, reading row i as owned by unit i.  The flag is therefore a PROMISE about the
   rows: simple_sound.  The repaired __setitem__ / __delitem__ (hence insert, append, extend, pop, reverse, slice deletion, which
   go through them) clear the flag; the pinned code never did. *)
From Coq Require Import List Arith ZArith Bool Lia.
From DS Require Import Spec.Dnf Model.Provenance Model.ProvOps Proofs.ProvRefine.
Import ListNotations.

Record sprov := mkS { sp : prov; simple : bool }.
Definition default_formulas (n : nat) : list dnf := map (fun i => [[(i, 1)]]) (seq 0 n).
Definition s_default (n : nat) : sprov := mkS (default_prov n) true.
(* every edit of the repaired container clears the flag; the pinned container kept it *)
Definition s_apply (s : sprov) (o : op) : sprov := mkS (apply_op (sp s) o) false.
Definition s_apply_pinned (s : sprov) (o : op) : sprov := mkS (apply_op (sp s) o) (simple s).
Definition s_run (s : sprov) (ops : list op) : sprov := fold_left s_apply ops s.

(* the promise: a container flagged simple holds exactly the default formulas (row i: unit i = candidate 1) *)
Definition simple_sound (s : sprov) : Prop := simple s = true -> view (sp s) = default_formulas (plen (sp s)).

Lemma view_default n : view (default_prov n) = default_formulas n.
Proof.
  unfold view, default_prov, default_formulas. cbn [prow]. rewrite map_map. apply map_ext_in. intros i _.
  assert (E : (Z.of_nat i =? -1)%Z = false) by (apply Z.eqb_neq; lia).
  unfold decode_row, decode_conj, cell_is_pad, cell_has_pad, lit_of_cell. cbn [filter forallb fst snd map negb andb orb].
  rewrite E. cbn [andb orb negb filter map fst snd forallb]. rewrite E. cbn. rewrite Nat2Z.id. reflexivity.
Qed.

Theorem simple_sound_default n : simple_sound (s_default n).
Proof.
  intros _. cbn [s_default sp]. rewrite view_default. unfold plen, default_prov. cbn [prow]. rewrite map_length, seq_length. reflexivity.
Qed.
Theorem simple_sound_step s o : simple_sound (s_apply s o).
Proof. intros H. discriminate H. Qed.
Theorem simple_sound_run : forall ops s, simple_sound s -> simple_sound (s_run s ops).
Proof.
  induction ops as [|o ops IH]; intros s Hs; [exact Hs|]. cbn [s_run fold_left]. apply IH. apply simple_sound_step.
Qed.

(* F19: with the pinned code one assignment breaks the promise (Provenance(units=2); p[0] = p[1]) *)
Theorem simple_refuted_F19 : exists n o, legal n (default_formulas n) o /\ ~ simple_sound (s_apply_pinned (s_default n) o).
Proof.
  exists 2, (OSet 0 [[(1, 1)]]). split.
  - split; [cbn; lia|]. split; [discriminate|]. split.
    + intros c Hc. destruct Hc as [<-|[]]. discriminate.
    + intros c l Hc Hl. destruct Hc as [<-|[]]. destruct Hl as [<-|[]]. cbn. lia.
  - intros H. specialize (H eq_refl). vm_compute in H. discriminate H.
Qed.
