(* C07 (invariances of the K=1 kernel) and C08 (linearity in the utility) proved directly on the model. *)
From Coq Require Import List Arith ZArith QArith Lia Bool Setoid Morphisms Permutation Lqa.
From DS Require Import Util.SumQ Util.ListX Spec.Shapley Spec.NNGame Model.Provenance Model.Kernel Model.Neighbor
     Proofs.ShapleyAxioms Proofs.KernelShapley Proofs.KernelFull Proofs.NearestRow Proofs.ProvRowwise.
Import ListNotations.
Local Open Scope Q_scope.

Definition colsum (ts : list kpoint) (p : nat) : Q :=
  sumQ (fun t : kpoint => col_value (fst (fst t)) (snd (fst t)) (snd t) p) ts.

Lemma kernel_t_nth n ts p : (p < n)%nat -> nth p (kernel_t n ts) 0 = colsum ts p / qn (length ts).
Proof. intros H. unfold kernel_t. apply (map_nth_seq (fun p => colsum ts p / qn (length ts)) 0 n p H). Qed.
Lemma kernel_t_nth_out n ts p : (n <= p)%nat -> nth p (kernel_t n ts) 0 = 0.
Proof. intros H. apply nth_overflow. unfold kernel_t. rewrite map_length, seq_length. exact H. Qed.

(* ---------- validation set reordered ---------- *)
Theorem kernel_t_perm n ts ts' p : Permutation ts ts' -> nth p (kernel_t n ts) 0 == nth p (kernel_t n ts') 0.
Proof.
  intros H. destruct (Nat.lt_ge_cases p n) as [Hp|Hp].
  - rewrite !kernel_t_nth by exact Hp. unfold colsum. rewrite (sumQ_perm _ ts ts' H), (Permutation_length H). reflexivity.
  - rewrite !kernel_t_nth_out by exact Hp. reflexivity.
Qed.

(* ---------- validation set duplicated k times ---------- *)
Lemma sumQ_concat_repeat {A} (f : A -> Q) l k : sumQ f (concat (repeat l k)) == qn k * sumQ f l.
Proof.
  induction k as [|k IH]; cbn [repeat concat].
  - rewrite sumQ_nil. unfold qn. cbn. ring.
  - rewrite sumQ_app, IH, qn_S. ring.
Qed.
Lemma length_concat_repeat {A} (l : list A) k : length (concat (repeat l k)) = (k * length l)%nat.
Proof. induction k as [|k IH]; cbn [repeat concat]; [reflexivity|]. rewrite app_length, IH. lia. Qed.

Theorem kernel_t_dup n ts k p : (0 < k)%nat -> nth p (kernel_t n (concat (repeat ts k))) 0 == nth p (kernel_t n ts) 0.
Proof.
  intros Hk. destruct (Nat.lt_ge_cases p n) as [Hp|Hp]; [|rewrite !kernel_t_nth_out by exact Hp; reflexivity].
  rewrite !kernel_t_nth by exact Hp. unfold colsum. rewrite sumQ_concat_repeat, length_concat_repeat, qn_mult.
  destruct ts as [|t ts].
  - cbn [length sumQ fold_right]. unfold qn at 3 4. cbn. unfold Qdiv. ring.
  - assert (0 < qn k) by (apply qn_pos; exact Hk).
    assert (0 < qn (length (t :: ts))) by (apply qn_pos; cbn; lia).
    field. split; lra.
Qed.

(* ---------- a batch loop that slices everything consistently re-weights to the same mean (what a repair of
   observation O1 has to satisfy) ---------- *)
Theorem kernel_t_app n a b p : a <> [] -> b <> [] ->
  nth p (kernel_t n (a ++ b)) 0
  == (qn (length a) * nth p (kernel_t n a) 0 + qn (length b) * nth p (kernel_t n b) 0) / qn (length a + length b).
Proof.
  intros Ha Hb. destruct (Nat.lt_ge_cases p n) as [Hp|Hp].
  - rewrite !kernel_t_nth by exact Hp. unfold colsum. rewrite sumQ_app, app_length.
    assert (0 < qn (length a)) by (apply qn_pos; destruct a; [contradiction|cbn; lia]).
    assert (0 < qn (length b)) by (apply qn_pos; destruct b; [contradiction|cbn; lia]).
    assert (0 < qn (length a + length b)) by (apply qn_pos; destruct a; [contradiction|cbn; lia]).
    field. repeat split; lra.
  - rewrite !kernel_t_nth_out by exact Hp. unfold Qdiv. ring.
Qed.

(* ---------- get_test_batch_size always returns n_test (observation O1): the batch loop runs exactly once ---------- *)
Theorem batch_size_is_n_test (bsize n_train n_test : N) : get_test_batch_size bsize n_train n_test = n_test.
Proof.
  unfold get_test_batch_size. apply N.max_r.
  set (k := N.max (n_train * n_test / bsize) 1). assert (Hk : (1 <= k)%N) by (unfold k; lia).
  apply N.div_le_upper_bound; [lia|]. nia.
Qed.

(* ---------- strictly increasing transform of all distances ---------- *)
Definition strictly_increasing (f : Q -> Q) : Prop :=
  (forall a b, a == b -> f a == f b) /\ (forall a b, a < b -> f a < f b).

Lemma mono_le f a b : strictly_increasing f -> Qle_bool (f a) (f b) = Qle_bool a b.
Proof.
  intros [Heq Hlt]. destruct (Qle_bool a b) eqn:E.
  - apply Qle_bool_iff in E. apply Qle_bool_iff. apply Qle_lteq in E as [E|E]; [apply Qlt_le_weak, Hlt, E|rewrite (Heq a b E); apply Qle_refl].
  - destruct (Qle_bool (f a) (f b)) eqn:E2; [|reflexivity]. apply Qle_bool_iff in E2.
    assert (Hba : b < a). { apply Qnot_le_lt. intros Hc. apply Qle_bool_iff in Hc. congruence. }
    apply Hlt in Hba. lra.
Qed.

Lemma argmin_first_mono f d l : strictly_increasing f -> argmin_first (fun r => f (d r)) l = argmin_first d l.
Proof.
  intros Hf. induction l as [|a t IH]; [reflexivity|]. cbn [argmin_first]. rewrite IH.
  destruct (argmin_first d t) as [s|]; [|reflexivity]. rewrite (mono_le f (d a) (d s) Hf). reflexivity.
Qed.
Theorem unit_row_mono f owner d p : strictly_increasing f -> unit_row owner (fun r => f (d r)) p = unit_row owner d p.
Proof. intros Hf. unfold unit_row. apply argmin_first_mono. exact Hf. Qed.
Lemma unit_dist_mono f owner d p : strictly_increasing f -> rows_of owner p <> [] ->
  unit_dist owner (fun r => f (d r)) p = f (unit_dist owner d p).
Proof.
  intros Hf Hne. unfold unit_dist. rewrite unit_row_mono by exact Hf. unfold unit_row.
  destruct (argmin_first_some d (rows_of owner p) Hne) as [r ->]. reflexivity.
Qed.
Theorem sorted_by_mono f owner d l : strictly_increasing f -> (forall p, In p l -> rows_of owner p <> []) ->
  sorted_by (unit_dist owner (fun r => f (d r))) l = sorted_by (unit_dist owner d) l.
Proof.
  intros Hf. induction l as [|a t IH]; intros Hl; [reflexivity|]. cbn [sorted_by]. destruct t as [|b t']; [reflexivity|].
  rewrite IH by (intros p Hp; apply Hl; right; exact Hp).
  rewrite !unit_dist_mono by (auto; apply Hl; cbn; auto). rewrite (mono_le f _ _ Hf). reflexivity.
Qed.

(* ---------- relabelling units (reordering rows together with labels and provenance) ---------- *)
Lemma curs_relabel (sigma tau : nat -> nat) u null : (forall q, tau (sigma q) = q) ->
  forall l pos, curs (fun q => u (tau q)) null pos (map sigma l) = curs u null pos l.
Proof.
  intros Hinv. induction l as [|q t IH]; intros pos; [reflexivity|]. cbn [map curs]. rewrite IH, Hinv.
  destruct t as [|q' t']; cbn [map hd_u]; rewrite ?Hinv; reflexivity.
Qed.
Theorem col_value_relabel (sigma tau : nat -> nat) u null l p : (forall q, tau (sigma q) = q) ->
  col_value (fun q => u (tau q)) null (map sigma l) (sigma p) == col_value u null l p.
Proof.
  intros Hinv. unfold col_value. rewrite (curs_relabel sigma tau u null Hinv).
  generalize (curs u null 0 l) as vals. induction l as [|q t IH]; intros vals; [reflexivity|].
  destruct vals as [|v vals]; [reflexivity|]. cbn [map combine]. rewrite !sumQ_cons, IH. cbn [fst snd].
  destruct (Nat.eqb_spec q p) as [->|Hne]; [rewrite Nat.eqb_refl; reflexivity|].
  destruct (Nat.eqb_spec (sigma q) (sigma p)) as [E|_]; [|reflexivity].
  exfalso. apply Hne. rewrite <- (Hinv q), <- (Hinv p), E. reflexivity.
Qed.

(* ---------- C08: linearity in (utility, null) ---------- *)
Definition sc (p : nat) (l : list nat) (vals : list Q) : Q :=
  sumQ (fun qc : nat * Q => if Nat.eqb (fst qc) p then snd qc else 0) (combine l vals).

Lemma curs_linear a b u1 n1 u2 n2 p : forall l pos,
  hd0 (curs (fun q => a * u1 q + b * u2 q) (a * n1 + b * n2) pos l)
    == a * hd0 (curs u1 n1 pos l) + b * hd0 (curs u2 n2 pos l) /\
  sc p l (curs (fun q => a * u1 q + b * u2 q) (a * n1 + b * n2) pos l)
    == a * sc p l (curs u1 n1 pos l) + b * sc p l (curs u2 n2 pos l).
Proof.
  induction l as [|q t IH]; intros pos.
  - cbn [curs hd0]. unfold sc. cbn [combine]. rewrite !sumQ_nil. split; ring.
  - destruct (IH (S pos)) as [Hh Hs]. cbn [curs hd0]. unfold sc in *. cbn [combine]. rewrite !sumQ_cons. cbn [fst snd].
    assert (Hpos : 0 < qn (S pos)) by (apply qn_pos; lia).
    assert (Hd : hd_u (fun q => a * u1 q + b * u2 q) (a * n1 + b * n2) t == a * hd_u u1 n1 t + b * hd_u u2 n2 t)
      by (destruct t; cbn [hd_u]; ring).
    assert (Hv : hd0 (curs (fun q0 => a * u1 q0 + b * u2 q0) (a * n1 + b * n2) (S pos) t)
                 + (a * u1 q + b * u2 q - hd_u (fun q0 => a * u1 q0 + b * u2 q0) (a * n1 + b * n2) t) / qn (S pos)
                 == a * (hd0 (curs u1 n1 (S pos) t) + (u1 q - hd_u u1 n1 t) / qn (S pos))
                    + b * (hd0 (curs u2 n2 (S pos) t) + (u2 q - hd_u u2 n2 t) / qn (S pos))).
    { rewrite Hh, Hd. field. lra. }
    split; [exact Hv|]. rewrite Hs. destruct (Nat.eqb q p); [rewrite Hv|]; ring.
Qed.

Theorem col_value_linear a b u1 n1 u2 n2 l p :
  col_value (fun q => a * u1 q + b * u2 q) (a * n1 + b * n2) l p
  == a * col_value u1 n1 l p + b * col_value u2 n2 l p.
Proof. exact (proj2 (curs_linear a b u1 n1 u2 n2 p l 0%nat)). Qed.

(* adding the same constant to the utility and to its null value changes nothing (only differences enter) *)
Lemma curs_shift c u null : forall l pos, curs (fun q => u q + c) (null + c) pos l = curs u null pos l
  \/ Forall2 Qeq (curs (fun q => u q + c) (null + c) pos l) (curs u null pos l).
Proof.
  intros l pos. right. revert pos. induction l as [|q t IH]; intros pos; [constructor|]. cbn [curs].
  specialize (IH (S pos)). constructor; [|exact IH].
  assert (Hh : hd0 (curs (fun q0 => u q0 + c) (null + c) (S pos) t) == hd0 (curs u null (S pos) t))
    by (inversion IH; cbn [hd0]; [reflexivity|assumption]).
  assert (Hd : hd_u (fun q0 => u q0 + c) (null + c) t == hd_u u null t + c) by (destruct t; cbn [hd_u]; ring).
  assert (Hpos : 0 < qn (S pos)) by (apply qn_pos; lia).
  rewrite Hh, Hd. field. lra.
Qed.
Lemma sc_Forall2 p : forall l v1 v2, Forall2 Qeq v1 v2 -> sc p l v1 == sc p l v2.
Proof.
  unfold sc. induction l as [|q t IH]; intros v1 v2 H; [reflexivity|].
  inversion H as [|x y v1' v2' Hxy H']; subst; cbn [combine]; [reflexivity|].
  rewrite !sumQ_cons, (IH v1' v2' H'). cbn [fst snd]. destruct (Nat.eqb q p); [rewrite Hxy|]; reflexivity.
Qed.
Theorem col_value_shift c u null l p : col_value (fun q => u q + c) (null + c) l p == col_value u null l p.
Proof.
  unfold col_value. fold (sc p l (curs (fun q => u q + c) (null + c) 0 l)). fold (sc p l (curs u null 0 l)).
  apply sc_Forall2. destruct (curs_shift c u null l 0%nat) as [->|H]; [|exact H].
  clear. induction (curs u null 0 l); constructor; [reflexivity|assumption].
Qed.

(* lifted to the whole kernel: joint points are the weighted combination of component points with the same orders *)
Definition joint_point (a b : Q) (t1 t2 : kpoint) : kpoint :=
  (fun q => a * fst (fst t1) q + b * fst (fst t2) q, a * snd (fst t1) + b * snd (fst t2), snd t1).

Theorem kernel_t_linear n a b : forall (ts1 ts2 : list kpoint) p, length ts1 = length ts2 ->
  (forall t1 t2, In (t1, t2) (combine ts1 ts2) -> snd t1 = snd t2) ->
  nth p (kernel_t n (map (fun tt => joint_point a b (fst tt) (snd tt)) (combine ts1 ts2))) 0
  == a * nth p (kernel_t n ts1) 0 + b * nth p (kernel_t n ts2) 0.
Proof.
  intros ts1 ts2 p Hlen Hord. destruct (Nat.lt_ge_cases p n) as [Hp|Hp];
    [|rewrite !kernel_t_nth_out by exact Hp; ring].
  rewrite !kernel_t_nth by exact Hp. rewrite map_length, combine_length, <- Hlen, Nat.min_id.
  assert (E : colsum (map (fun tt => joint_point a b (fst tt) (snd tt)) (combine ts1 ts2)) p
              == a * colsum ts1 p + b * colsum ts2 p).
  { unfold colsum. revert ts2 Hlen Hord. induction ts1 as [|t1 ts1 IH]; intros [|t2 ts2] Hlen Hord; try discriminate.
    - cbn. ring.
    - cbn [combine map]. rewrite !sumQ_cons. rewrite IH by (auto; intros x y Hxy; apply Hord; right; exact Hxy).
      cbv beta. unfold joint_point. cbn [fst snd].
      rewrite (col_value_linear a b (fst (fst t1)) (snd (fst t1)) (fst (fst t2)) (snd (fst t2)) (snd t1) p).
      rewrite <- (Hord t1 t2 (or_introl eq_refl)).
      generalize (col_value (fst (fst t1)) (snd (fst t1)) (snd t1) p) as X1.
      generalize (col_value (fst (fst t2)) (snd (fst t2)) (snd t1) p) as X2.
      generalize (sumQ (fun t : kpoint => col_value (fst (fst t)) (snd (fst t)) (snd t) p) ts1) as S1.
      generalize (sumQ (fun t : kpoint => col_value (fst (fst t)) (snd (fst t)) (snd t) p) ts2) as S2.
      intros S2 S1 X2 X1. ring. }
  rewrite E. unfold Qdiv. ring.
Qed.

Theorem kernel_t_shift n c ts p :
  nth p (kernel_t n (map (fun t : kpoint => (fun q => fst (fst t) q + c, snd (fst t) + c, snd t)) ts)) 0
  == nth p (kernel_t n ts) 0.
Proof.
  destruct (Nat.lt_ge_cases p n) as [Hp|Hp]; [|rewrite !kernel_t_nth_out by exact Hp; reflexivity].
  rewrite !kernel_t_nth by exact Hp. rewrite map_length. apply Qmult_comp; [|reflexivity].
  unfold colsum. rewrite sumQ_map. apply sumQ_ext. intros [[u null] l] _. cbn [fst snd]. apply col_value_shift.
Qed.

(* ---------- accuracy utility: the unit utilities depend on the labels only through equality ---------- *)
Definition acc_col (labels : list Z) (y : Z) : list Q := map (fun c => if Z.eqb c y then 1 else 0) (classes labels).

Lemma acc_lookup labels y l : In l labels ->
  nthQ (acc_col labels y) (encode_label labels l) = if Z.eqb l y then 1 else 0.
Proof.
  intros Hl. unfold nthQ, acc_col, encode_label, classes.
  assert (Hin : In l (sorted_distinct labels)) by (apply in_sorted_distinct; exact Hl).
  rewrite (nth_indep _ 0 ((fun c => if Z.eqb c y then 1 else 0) 0%Z)) by (rewrite map_length; apply position_lt; exact Hin).
  rewrite (map_nth (fun c => if Z.eqb c y then 1 else 0)). rewrite position_nth by exact Hin. reflexivity.
Qed.

Theorem acc_unit_utility_renaming (g : Z -> Z) labels owner dist_j y q :
  (forall a b, g a = g b -> a = b) -> length owner = length labels ->
  unit_utility (map g labels) owner dist_j (acc_col (map g labels) (g y)) q
  = unit_utility labels owner dist_j (acc_col labels y) q.
Proof.
  intros Hinj Hlen. unfold unit_utility. destruct (unit_row owner (nthQ dist_j) q) as [r|] eqn:E; [|reflexivity].
  unfold unit_row in E. apply argmin_first_spec in E as [Hin _]. apply rows_of_spec in Hin as [Hr _].
  rewrite Hlen in Hr.
  assert (Hnth : nth r (map g labels) 0%Z = g (nth r labels 0%Z)).
  { rewrite (nth_indep _ 0%Z (g 0%Z)) by (rewrite map_length; exact Hr). apply map_nth. }
  rewrite Hnth. rewrite !acc_lookup.
  - destruct (Z.eqb_spec (nth r labels 0%Z) y) as [->|Hne]; [rewrite Z.eqb_refl; reflexivity|].
    destruct (Z.eqb_spec (g (nth r labels 0%Z)) (g y)) as [E2|_]; [apply Hinj in E2; contradiction|reflexivity].
  - apply nth_In. exact Hr.
  - apply in_map. apply nth_In. exact Hr.
Qed.

(* ---------- Shapley-level companions used by C06 / C08 for any game (bruteforce path) ---------- *)
Theorem shapley_shift n v c i : (i < n)%nat -> shapley_bf n (fun m => v m + c) i == shapley_bf n v i.
Proof.
  intros Hi. rewrite (shapley_bf_ext n _ (fun m => 1 * v m + c * (fun _ => 1) m)) by (intros; ring).
  rewrite shapley_linear, shapley_const by exact Hi. ring.
Qed.
Theorem shapley_scale n v c i : shapley_bf n (fun m => c * v m) i == c * shapley_bf n v i.
Proof.
  rewrite (shapley_bf_ext n _ (fun m => c * v m + 0 * v m)) by (intros; ring). rewrite shapley_linear. ring.
Qed.
