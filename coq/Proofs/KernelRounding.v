(* C06, precision clause: a forward error bound for the scoring kernel under the STANDARD MODEL of floating-point arithmetic.
   For ANY rounding operator rnd with relative error at most eps (|rnd x - x| <= eps |x|: binary64 round-to-nearest has
   eps = 2^-53 when no operation overflows or underflows), the rounding-aware model of the kernel (Model/KernelRound.v) satisfies
       | score'_p - score_p |  <=  ((1 + eps)^(3 n + T + 1) - 1) * ascore_p
   and, summed over the units of a rank order that is a permutation,
       | sum_p score'_p - mean_j (U[nearest_j] - null_j) |  <=  ((1 + eps)^(3 n + T + 1) - 1) * mean_j TV_j
   (n units, T validation points, TV_j = total variation of the utility along the ranks of point j).  The bound grows like
   (3 n + T) * 2^-53 -- about 2e-11 at 65 536 rows -- i.e. it is NOT uniform in n; it is what the standard model gives. *)
From Coq Require Import List Arith ZArith QArith Qabs Lia Lqa Bool Setoid Permutation.
From DS Require Import Util.SumQ Spec.Shapley Model.Kernel Model.KernelRound Proofs.ShapleyAxioms Proofs.KernelFull.
Import ListNotations.
Local Open Scope Q_scope.

(* ---------- small facts ---------- *)
Lemma qn_nonneg k : 0 <= qn k.
Proof. unfold qn. change 0 with (inject_Z 0). rewrite <- Zle_Qle. lia. Qed.
Lemma Qabs_div_qn x k : Qabs (x / qn k) == Qabs x / qn k.
Proof. unfold Qdiv. rewrite Qabs_Qmult, Qabs_Qinv, (Qabs_pos (qn k)) by apply qn_nonneg. reflexivity. Qed.
Lemma Qdiv_nonneg x k : 0 <= x -> 0 <= x / qn k.
Proof.
  intros Hx. unfold Qdiv. apply Qmult_le_0_compat; [exact Hx|]. apply Qinv_le_0_compat. apply qn_nonneg.
Qed.
Lemma Qdiv_le_qn x y k : x <= y -> x / qn k <= y / qn k.
Proof. intros H. unfold Qdiv. apply Qmult_le_compat_r; [exact H|]. apply Qinv_le_0_compat. apply qn_nonneg. Qed.
Lemma sumQ_nonneg {A} (f : A -> Q) l : (forall a, In a l -> 0 <= f a) -> 0 <= sumQ f l.
Proof.
  induction l as [|a l IH]; intros H; [rewrite sumQ_nil; lra|]. rewrite sumQ_cons.
  assert (0 <= f a) by (apply H; left; reflexivity). assert (0 <= sumQ f l) by (apply IH; intros b Hb; apply H; right; exact Hb). lra.
Qed.
Lemma sumQ_abs_le {A} (f g h : A -> Q) (G : Q) l : (forall a, In a l -> Qabs (f a - g a) <= G * h a) ->
  Qabs (sumQ f l - sumQ g l) <= G * sumQ h l.
Proof.
  induction l as [|a l IH]; intros H.
  - rewrite !sumQ_nil. setoid_replace (0 - 0) with 0 by ring. cbn. lra.
  - rewrite !sumQ_cons. setoid_replace (f a + sumQ f l - (g a + sumQ g l)) with ((f a - g a) + (sumQ f l - sumQ g l)) by ring.
    eapply Qle_trans; [apply Qabs_triangle|]. assert (H1 := H a (or_introl eq_refl)).
    assert (H2 : Qabs (sumQ f l - sumQ g l) <= G * sumQ h l) by (apply IH; intros b Hb; apply H; right; exact Hb).
    setoid_replace (G * (h a + sumQ h l)) with (G * h a + G * sumQ h l) by ring. lra.
Qed.

Section Bound.
  Variables (rnd : Q -> Q) (eps : Q).
  Hypothesis Heps : 0 <= eps.
  Hypothesis Hrnd : forall x, Qabs (rnd x - x) <= eps * Qabs x.
  Notation pw := (pw eps).

  Lemma pw_ge1 k : 1 <= pw k.
  Proof. induction k as [|k IH]; cbn [KernelRound.pw]; [lra|]. nra. Qed.
  Lemma pw_add a b : pw (a + b) == pw a * pw b.
  Proof. induction a as [|a IH]; cbn [KernelRound.pw Nat.add]; [ring|]. rewrite IH. ring. Qed.
  Lemma pw_mono a b : (a <= b)%nat -> pw a <= pw b.
  Proof.
    intros H. replace b with (a + (b - a))%nat by lia. rewrite pw_add. pose proof (pw_ge1 a) as Ha. pose proof (pw_ge1 (b - a)) as Hb. nra.
  Qed.

  (* one rounded operation on an already perturbed argument *)
  Lemma rnd_err x' x e : Qabs (x' - x) <= e -> Qabs (rnd x' - x) <= eps * Qabs x + (1 + eps) * e.
  Proof.
    intros H. setoid_replace (rnd x' - x) with ((rnd x' - x') + (x' - x)) by ring.
    eapply Qle_trans; [apply Qabs_triangle|]. pose proof (Hrnd x') as H1.
    assert (H2 : Qabs x' <= Qabs x + e).
    { setoid_replace x' with (x + (x' - x)) at 1 by ring. eapply Qle_trans; [apply Qabs_triangle|]. lra. }
    pose proof (Qabs_nonneg x) as Hx. pose proof (Qabs_nonneg x') as Hx'. nra.
  Qed.

  (* ---------- the recurrence, rank by rank ---------- *)
  Variables (u : nat -> Q) (null : Q).
  Lemma acurs_facts : forall l pos, 0 <= hd0 (acurs u null pos l) /\ Qabs (hd0 (curs u null pos l)) <= hd0 (acurs u null pos l).
  Proof.
    induction l as [|q t IH]; intros pos; cbn [acurs curs hd0]; [split; [lra|cbn; lra]|].
    destruct (IH (S pos)) as [A1 A2]. pose proof (Qdiv_nonneg (Qabs (u q - hd_u u null t)) (S pos) (Qabs_nonneg _)) as Hd. split; [lra|].
    eapply Qle_trans; [apply Qabs_triangle|]. rewrite Qabs_div_qn. lra.
  Qed.

  Lemma rcurs_err : forall l pos,
    Qabs (hd0 (rcurs rnd u null pos l) - hd0 (curs u null pos l)) <= (pw (3 * length l) - 1) * hd0 (acurs u null pos l).
  Proof.
    induction l as [|q t IH]; intros pos.
    - cbn [rcurs curs acurs hd0 length Nat.mul KernelRound.pw]. setoid_replace (0 - 0) with 0 by ring. cbn. lra.
    - cbn [rcurs curs acurs hd0]. set (R := hd0 (rcurs rnd u null (S pos) t)). set (C := hd0 (curs u null (S pos) t)).
      set (A := hd0 (acurs u null (S pos) t)). set (d := u q - hd_u u null t). set (c := qn (S pos)).
      specialize (IH (S pos)). fold R C A in IH. destruct (acurs_facts t (S pos)) as [HA HC]. fold A in HA. fold C A in HC.
      set (a := Qabs d / c). assert (Ha : 0 <= a) by (apply Qdiv_nonneg, Qabs_nonneg).
      (* the rounded share *)
      assert (S2 : Qabs (rnd d / c - d / c) <= eps * a).
      { setoid_replace (rnd d / c - d / c) with ((rnd d - d) / c) by (unfold Qdiv; ring). unfold c. rewrite Qabs_div_qn.
        unfold a, c. setoid_replace (eps * (Qabs d / qn (S pos))) with ((eps * Qabs d) / qn (S pos)) by (unfold Qdiv; ring).
        apply Qdiv_le_qn. apply Hrnd. }
      pose proof (rnd_err (rnd d / c) (d / c) (eps * a) S2) as S3. unfold c in S3 at 3. rewrite Qabs_div_qn in S3. fold c a in S3.
      (* the rounded addition *)
      assert (S4 : Qabs ((R + rnd (rnd d / c)) - (C + d / c)) <= (pw (3 * length t) - 1) * A + (eps * a + (1 + eps) * (eps * a))).
      { setoid_replace (R + rnd (rnd d / c) - (C + d / c)) with ((R - C) + (rnd (rnd d / c) - d / c)) by ring.
        eapply Qle_trans; [apply Qabs_triangle|]. lra. }
      pose proof (rnd_err _ _ _ S4) as S5.
      assert (HX : Qabs (C + d / c) <= A + a).
      { eapply Qle_trans; [apply Qabs_triangle|]. unfold c at 1. rewrite Qabs_div_qn. fold c a. lra. }
      eapply Qle_trans; [exact S5|]. cbn [length]. replace (3 * S (length t))%nat with (3 + 3 * length t)%nat by lia.
      rewrite pw_add. cbn [KernelRound.pw]. pose proof (pw_ge1 (3 * length t)) as HP. set (P := pw (3 * length t)) in *.
      pose proof (Qabs_nonneg (C + d / c)) as HX0.
      assert (E1 : eps * Qabs (C + d / c) <= eps * (A + a)) by nra.
      assert (K1 : 0 <= (1 + eps) * P * ((1 + eps) * (1 + eps) - 1) * A).
      { apply Qmult_le_0_compat; [|exact HA]. apply Qmult_le_0_compat; [nra|nra]. }
      assert (K2 : 0 <= (1 + eps) * ((1 + eps) * (1 + eps)) * (P - 1) * a).
      { apply Qmult_le_0_compat; [|exact Ha]. apply Qmult_le_0_compat; [nra|lra]. }
      setoid_replace (((1 + eps) * ((1 + eps) * ((1 + eps) * 1)) * P - 1) * (A + a))
        with (eps * (A + a) + (1 + eps) * ((P - 1) * A + (eps * a + (1 + eps) * (eps * a)))
              + (1 + eps) * P * ((1 + eps) * (1 + eps) - 1) * A + (1 + eps) * ((1 + eps) * (1 + eps)) * (P - 1) * a) by ring.
      lra.
  Qed.

  (* all ranks at once, with one uniform factor *)
  Inductive bound3 (G : Q) : list Q -> list Q -> list Q -> Prop :=
  | b3_nil : bound3 G [] [] []
  | b3_cons r c a rs cs aa : Qabs (r - c) <= G * a -> 0 <= a -> Qabs c <= a -> bound3 G rs cs aa -> bound3 G (r :: rs) (c :: cs) (a :: aa).

  Lemma curs_bound3 G : forall l pos, pw (3 * length l) - 1 <= G ->
    bound3 G (rcurs rnd u null pos l) (curs u null pos l) (acurs u null pos l).
  Proof.
    induction l as [|q t IH]; intros pos HG; [constructor|].
    pose proof (rcurs_err (q :: t) pos) as H1. destruct (acurs_facts (q :: t) pos) as [H2 H3].
    assert (Ht : bound3 G (rcurs rnd u null (S pos) t) (curs u null (S pos) t) (acurs u null (S pos) t)).
    { apply IH. eapply Qle_trans; [|exact HG]. cbn [length]. pose proof (pw_mono (3 * length t) (3 * S (length t)) ltac:(lia)). lra. }
    cbn [rcurs curs acurs hd0] in *. constructor; try assumption.
    eapply Qle_trans; [exact H1|]. apply Qmult_le_compat_r; assumption.
  Qed.
End Bound.

Section Kernel.
  Variables (rnd : Q -> Q) (eps : Q).
  Hypothesis Heps : 0 <= eps.
  Hypothesis Hrnd : forall x, Qabs (rnd x - x) <= eps * Qabs x.
  Notation pw := (pw eps).

  (* the value a unit receives for one validation point *)
  Lemma sel_err G : 0 <= G -> forall idxs rs cs aa p, bound3 G rs cs aa ->
    Qabs (sel idxs rs p - sel idxs cs p) <= G * sel idxs aa p /\ 0 <= sel idxs aa p /\ Qabs (sel idxs cs p) <= sel idxs aa p.
  Proof.
    intros HG. unfold sel. induction idxs as [|q idxs IH]; intros rs cs aa p Hb.
    - cbn [combine]. rewrite !sumQ_nil. setoid_replace (0 - 0) with 0 by ring. cbn. repeat split; lra.
    - destruct Hb as [|r c a rs cs aa H1 H2 H3 Hb]; cbn [combine].
      + rewrite !sumQ_nil. setoid_replace (0 - 0) with 0 by ring. cbn. repeat split; lra.
      + rewrite !sumQ_cons. cbn [fst snd]. destruct (IH rs cs aa p Hb) as [I1 [I2 I3]]. destruct (Nat.eqb q p).
        * split; [|split].
          -- match goal with |- Qabs ?e <= _ => setoid_replace e with ((r - c) + (sumQ (fun qc : nat * Q => if Nat.eqb (fst qc) p then snd qc else 0) (combine idxs rs)
                 - sumQ (fun qc : nat * Q => if Nat.eqb (fst qc) p then snd qc else 0) (combine idxs cs))) by ring end.
             eapply Qle_trans; [apply Qabs_triangle|].
             match goal with |- _ <= G * (a + ?s) => setoid_replace (G * (a + s)) with (G * a + G * s) by ring end. lra.
          -- lra.
          -- eapply Qle_trans; [apply Qabs_triangle|]. lra.
        * split; [|split].
          -- match goal with |- Qabs ?e <= _ => setoid_replace e with (sumQ (fun qc : nat * Q => if Nat.eqb (fst qc) p then snd qc else 0) (combine idxs rs)
                 - sumQ (fun qc : nat * Q => if Nat.eqb (fst qc) p then snd qc else 0) (combine idxs cs)) by ring end.
             match goal with |- _ <= G * (0 + ?s) => setoid_replace (G * (0 + s)) with (G * s) by ring end. exact I1.
          -- lra.
          -- match goal with |- Qabs ?e <= _ => setoid_replace e with (sumQ (fun qc : nat * Q => if Nat.eqb (fst qc) p then snd qc else 0) (combine idxs cs)) by ring end. lra.
  Qed.

  (* accumulation over validation points: out[p] = rnd (out[p] + c'_j) *)
  Lemma racc_err G : 0 <= G -> forall cs' cs aa, bound3 G cs' cs aa -> forall acc' acc S M,
    Qabs (acc' - acc) <= (M - 1) * S -> Qabs acc <= S -> 0 <= S -> 1 + G <= M ->
    Qabs (fold_left (fun a c => rnd (a + c)) cs' acc' - (acc + sumQ (fun x => x) cs))
      <= (pw (length cs) * M - 1) * (S + sumQ (fun x => x) aa)
    /\ Qabs (acc + sumQ (fun x => x) cs) <= S + sumQ (fun x => x) aa /\ 0 <= S + sumQ (fun x => x) aa.
  Proof.
    intros HG cs' cs aa Hb. induction Hb as [|r c a rs cs aa H1 H2 H3 Hb IH]; intros acc' acc S M E1 E2 E3 E4.
    - cbn [fold_left length KernelRound.pw]. rewrite !sumQ_nil.
      setoid_replace (acc' - (acc + 0)) with (acc' - acc) by ring. setoid_replace (acc + 0) with acc by ring.
      setoid_replace ((1 * M - 1) * (S + 0)) with ((M - 1) * S) by ring. repeat split; lra.
    - cbn [fold_left length]. rewrite !sumQ_cons.
      assert (X1 : Qabs ((acc' + r) - (acc + c)) <= (M - 1) * S + G * a).
      { setoid_replace (acc' + r - (acc + c)) with ((acc' - acc) + (r - c)) by ring. eapply Qle_trans; [apply Qabs_triangle|]. lra. }
      pose proof (rnd_err rnd eps Heps Hrnd _ _ _ X1) as X2.
      assert (X3 : Qabs (acc + c) <= S + a) by (eapply Qle_trans; [apply Qabs_triangle|]; lra).
      assert (X4 : Qabs (rnd (acc' + r) - (acc + c)) <= ((1 + eps) * M - 1) * (S + a)).
      { eapply Qle_trans; [exact X2|]. pose proof (Qabs_nonneg (acc + c)) as X0.
        assert (Y1 : eps * Qabs (acc + c) <= eps * (S + a)) by nra.
        assert (Y2 : 0 <= (1 + eps) * (M - 1 - G) * a) by (apply Qmult_le_0_compat; [nra|exact H2]).
        setoid_replace (((1 + eps) * M - 1) * (S + a)) with (eps * (S + a) + (1 + eps) * ((M - 1) * S + G * a) + (1 + eps) * (M - 1 - G) * a) by ring.
        lra. }
      assert (X5 : 1 + G <= (1 + eps) * M) by nra.
      destruct (IH (rnd (acc' + r)) (acc + c) (S + a) ((1 + eps) * M)) as [J1 [J2 J3]]; try assumption; [lra|].
      setoid_replace (acc + (c + sumQ (fun x => x) cs)) with (acc + c + sumQ (fun x => x) cs) by ring.
      setoid_replace (S + (a + sumQ (fun x => x) aa)) with (S + a + sumQ (fun x => x) aa) by ring.
      cbn [KernelRound.pw]. setoid_replace ((1 + eps) * pw (length cs) * M) with (pw (length cs) * ((1 + eps) * M)) by ring.
      repeat split; assumption.
  Qed.

  Lemma bound3_map {A} G (f g h : A -> Q) (l : list A) :
    (forall t, In t l -> Qabs (f t - g t) <= G * h t /\ 0 <= h t /\ Qabs (g t) <= h t) -> bound3 G (map f l) (map g l) (map h l).
  Proof.
    induction l as [|t l IH]; intros H; cbn [map]; [constructor|]. destruct (H t (or_introl eq_refl)) as [A1 [A2 A3]].
    constructor; try assumption. apply IH. intros t' Ht'. apply H. right. exact Ht'.
  Qed.

  (* ---------- the score of one unit ---------- *)
  Theorem rkernel_err n (ts : list kpoint) p : (p < n)%nat -> (forall t, In t ts -> (length (snd t) <= n)%nat) ->
    Qabs (nth p (rkernel_t rnd n ts) 0 - nth p (kernel_t n ts) 0) <= (pw (3 * n + length ts + 1) - 1) * nth p (akernel_t n ts) 0
    /\ 0 <= nth p (akernel_t n ts) 0.
  Proof.
    intros Hp Hlen. unfold rkernel_t, kernel_t, akernel_t. rewrite !map_nth_seq by exact Hp.
    set (G := pw (3 * n) - 1). assert (HG : 0 <= G) by (unfold G; pose proof (pw_ge1 eps Heps (3 * n)); lra).
    set (fr := fun t : kpoint => sel (snd t) (rcurs rnd (fst (fst t)) (snd (fst t)) 0 (snd t)) p).
    set (fc := fun t : kpoint => col_value (fst (fst t)) (snd (fst t)) (snd t) p).
    set (fa := fun t : kpoint => sel (snd t) (acurs (fst (fst t)) (snd (fst t)) 0 (snd t)) p).
    assert (Hb : bound3 G (map fr ts) (map fc ts) (map fa ts)).
    { apply bound3_map. intros t Ht. unfold fr, fc, fa. change (col_value (fst (fst t)) (snd (fst t)) (snd t) p)
        with (sel (snd t) (curs (fst (fst t)) (snd (fst t)) 0 (snd t)) p).
      apply sel_err; [exact HG|]. apply (curs_bound3 rnd eps Heps Hrnd). unfold G.
      pose proof (pw_mono eps Heps (3 * length (snd t)) (3 * n) ltac:(specialize (Hlen t Ht); lia)). lra. }
    destruct (racc_err G HG _ _ _ Hb 0 0 0 (1 + G)) as [R1 [R2 R3]]; try lra.
    { setoid_replace (0 - 0) with 0 by ring. cbn. lra. } { cbn. lra. }
    rewrite map_length in R1. rewrite (sumQ_map fc (fun x => x)) in R1. rewrite (sumQ_map fc (fun x => x)) in R2. rewrite (sumQ_map fa (fun x => x)) in R1. rewrite (sumQ_map fa (fun x => x)) in R2. rewrite (sumQ_map fa (fun x => x)) in R3. fold (racc rnd (map fr ts)) in R1.
    cbv beta in R1, R2, R3. change (sumQ (fun a => fc a) ts) with (sumQ fc ts) in R1, R2. change (sumQ (fun a => fa a) ts) with (sumQ fa ts) in R1, R2, R3.
    assert (Z1 : 0 + sumQ fc ts == sumQ fc ts) by ring. assert (Z2 : 0 + sumQ fa ts == sumQ fa ts) by ring.
    rewrite Z1, Z2 in R1. rewrite Z1, Z2 in R2. rewrite Z2 in R3.
    set (T := length ts) in *. set (M := pw T * (1 + G)) in *.
    (* the final division, rounded *)
    assert (D1 : Qabs (racc rnd (map fr ts) / qn T - sumQ fc ts / qn T) <= (M - 1) * (sumQ fa ts / qn T)).
    { setoid_replace (racc rnd (map fr ts) / qn T - sumQ fc ts / qn T) with ((racc rnd (map fr ts) - sumQ fc ts) / qn T) by (unfold Qdiv; ring).
      rewrite Qabs_div_qn. setoid_replace ((M - 1) * (sumQ fa ts / qn T)) with (((M - 1) * sumQ fa ts) / qn T) by (unfold Qdiv; ring).
      apply Qdiv_le_qn. exact R1. }
    pose proof (rnd_err rnd eps Heps Hrnd _ _ _ D1) as D2.
    assert (D3 : Qabs (sumQ fc ts / qn T) <= sumQ fa ts / qn T) by (rewrite Qabs_div_qn; apply Qdiv_le_qn; exact R2).
    assert (D4 : 0 <= sumQ fa ts / qn T) by (apply Qdiv_nonneg; exact R3).
    split; [|exact D4].
    eapply Qle_trans; [exact D2|]. replace (3 * n + T + 1)%nat with (S (T + 3 * n))%nat by lia. cbn [KernelRound.pw]. rewrite pw_add.
    assert (EM : M == pw T * pw (3 * n)) by (unfold M, G; ring). pose proof (Qabs_nonneg (sumQ fc ts / qn T)) as D0.
    assert (Y1 : eps * Qabs (sumQ fc ts / qn T) <= eps * (sumQ fa ts / qn T)) by nra.
    setoid_replace (((1 + eps) * (pw T * pw (3 * n)) - 1) * (sumQ fa ts / qn T))
      with (eps * (sumQ fa ts / qn T) + (1 + eps) * ((M - 1) * (sumQ fa ts / qn T))) by (rewrite EM; ring).
    lra.
  Qed.
End Kernel.

(* ---------- summed over the units: the efficiency identity with its rounding error ---------- *)
Lemma sumQ_indicator (q : nat) (x : Q) : forall n s, sumQ (fun p => if Nat.eqb q p then x else 0) (seq s n) == if (Nat.leb s q && Nat.ltb q (s + n))%bool then x else 0.
Proof.
  induction n as [|n IH]; intros s.
  - cbn [seq]. rewrite sumQ_nil. destruct (Nat.leb s q) eqn:E1; cbn [andb]; [|reflexivity]. replace (Nat.ltb q (s + 0)) with false; [reflexivity|].
    symmetry. apply Nat.ltb_ge. apply Nat.leb_le in E1. lia.
  - cbn [seq]. rewrite sumQ_cons, IH. destruct (Nat.eqb q s) eqn:E.
    + apply Nat.eqb_eq in E. subst s. replace (Nat.leb (S q) q) with false by (symmetry; apply Nat.leb_gt; lia). cbn [andb].
      rewrite Nat.leb_refl. replace (Nat.ltb q (q + S n)) with true by (symmetry; apply Nat.ltb_lt; lia). cbn [andb]. ring.
    + apply Nat.eqb_neq in E. destruct (Nat.leb (S s) q) eqn:E1.
      * apply Nat.leb_le in E1. replace (Nat.leb s q) with true by (symmetry; apply Nat.leb_le; lia). cbn [andb].
        replace (S s + n)%nat with (s + S n)%nat by lia. ring.
      * apply Nat.leb_gt in E1. cbn [andb]. destruct (Nat.leb s q) eqn:E2; cbn [andb]; [|ring]. apply Nat.leb_le in E2. lia.
Qed.

Lemma sel_sum n : forall idxs xs, (forall q, In q idxs -> (q < n)%nat) -> length xs = length idxs ->
  sumQ (fun p => sel idxs xs p) (seq 0 n) == sumQ (fun x => x) xs.
Proof.
  unfold sel. induction idxs as [|q idxs IH]; intros xs Hq Hl.
  - destruct xs; [|discriminate]. cbn [combine]. rewrite sumQ_nil. rewrite (sumQ_ext _ (fun _ => 0)) by (intros; rewrite sumQ_nil; reflexivity). apply sumQ_zero.
  - destruct xs as [|x xs]; [discriminate|]. cbn [combine]. rewrite sumQ_cons.
    rewrite (sumQ_ext _ (fun p => (if Nat.eqb q p then x else 0)
                                  + sumQ (fun qc : nat * Q => if Nat.eqb (fst qc) p then snd qc else 0) (combine idxs xs)))
      by (intros p _; rewrite sumQ_cons; reflexivity).
    rewrite sumQ_plus, IH by (auto; intros q' Hq'; apply Hq; right; exact Hq'). rewrite sumQ_indicator. cbn [Nat.leb andb Nat.add].
    replace (Nat.ltb q n) with true by (symmetry; apply Nat.ltb_lt; apply Hq; left; reflexivity). reflexivity.
Qed.

Lemma acurs_length u null : forall l pos, length (acurs u null pos l) = length l.
Proof. induction l as [|q t IH]; intros pos; cbn [acurs length]; [reflexivity|]. rewrite IH. reflexivity. Qed.

Lemma acurs_total u null : forall l pos,
  sumQ (fun x => x) (acurs u null pos l) + qn pos * hd0 (acurs u null pos l) == tv u null l.
Proof.
  induction l as [|q t IH]; intros pos; cbn [acurs tv hd0]; [rewrite sumQ_nil; ring|]. rewrite sumQ_cons. specialize (IH (S pos)).
  set (A := hd0 (acurs u null (S pos) t)) in *. set (S0 := sumQ (fun x => x) (acurs u null (S pos) t)) in *. set (d := Qabs (u q - hd_u u null t)).
  rewrite <- IH. rewrite qn_S. assert (Hc : ~ qn pos + 1 == 0) by (pose proof (qn_nonneg pos); lra). field. exact Hc.
Qed.

Lemma akernel_total n (ts : list kpoint) : (forall t, In t ts -> Permutation (snd t) (seq 0 n)) ->
  sumQ (fun p => nth p (akernel_t n ts) 0) (seq 0 n) == sumQ (fun t : kpoint => tv (fst (fst t)) (snd (fst t)) (snd t)) ts / qn (length ts).
Proof.
  intros Hperm. unfold akernel_t.
  rewrite (sumQ_ext _ (fun p => sumQ (fun t : kpoint => sel (snd t) (acurs (fst (fst t)) (snd (fst t)) 0 (snd t)) p) ts / qn (length ts))).
  2:{ intros p Hp. apply in_seq in Hp. rewrite map_nth_seq by lia. reflexivity. }
  unfold Qdiv. rewrite (sumQ_ext _ (fun p => / qn (length ts) * sumQ (fun t : kpoint => sel (snd t) (acurs (fst (fst t)) (snd (fst t)) 0 (snd t)) p) ts))
    by (intros; ring).
  rewrite sumQ_scale, sumQ_swap. rewrite Qmult_comm. apply Qmult_comp; [|reflexivity]. apply sumQ_ext. intros t Ht.
  rewrite sel_sum.
  - rewrite <- (acurs_total (fst (fst t)) (snd (fst t)) (snd t) 0). change (qn 0) with 0. ring.
  - intros q Hq. apply (Permutation_in _ (Hperm t Ht)) in Hq. apply in_seq in Hq. lia.
  - apply acurs_length.
Qed.

Section Efficiency.
  Variables (rnd : Q -> Q) (eps : Q).
  Hypothesis Heps : 0 <= eps.
  Hypothesis Hrnd : forall x, Qabs (rnd x - x) <= eps * Qabs x.

  Lemma rkernel_length n ts : length (rkernel_t rnd n ts) = n.
  Proof. unfold rkernel_t. rewrite map_length, seq_length. reflexivity. Qed.

  Theorem rkernel_efficiency n (ts : list kpoint) :
    (0 < n)%nat -> ts <> [] -> (forall t, In t ts -> Permutation (snd t) (seq 0 n)) ->
    Qabs (sumQ (fun x => x) (rkernel_t rnd n ts)
          - sumQ (fun t : kpoint => hd_u (fst (fst t)) (snd (fst t)) (snd t) - snd (fst t)) ts / qn (length ts))
    <= (pw eps (3 * n + length ts + 1) - 1) * (sumQ (fun t : kpoint => tv (fst (fst t)) (snd (fst t)) (snd t)) ts / qn (length ts)).
  Proof.
    intros Hn Hne Hperm. rewrite <- (kernel_t_efficiency n ts Hn Hne Hperm). rewrite <- (akernel_total n ts Hperm).
    assert (Hl : length (kernel_t n ts) = n) by (unfold kernel_t; rewrite map_length, seq_length; reflexivity).
    rewrite <- !sumQ_seq_nth, rkernel_length, Hl. apply sumQ_abs_le. intros p Hp. apply in_seq in Hp.
    apply (rkernel_err rnd eps Heps Hrnd n ts p); [lia|]. intros t Ht. rewrite (Permutation_length (Hperm t Ht)), seq_length. lia.
  Qed.
End Efficiency.

(* with rnd = identity the rounding-aware model IS the exact model (so the two are one definition up to the rounding operator) *)
Lemma rcurs_id u null : forall l pos, Forall2 Qeq (rcurs (fun x => x) u null pos l) (curs u null pos l).
Proof.
  induction l as [|q t IH]; intros pos; cbn [rcurs curs]; [constructor|]. constructor; [|apply IH].
  specialize (IH (S pos)). destruct IH as [|r c rs cs E _]; cbn [hd0]; [reflexivity|]. rewrite E. reflexivity.
Qed.

(* ---------- the usual closed form of the factor: (1 + eps)^k - 1 <= gamma_k = k eps / (1 - k eps) when k eps < 1 ---------- *)
Lemma pw_nonneg eps k : 0 <= eps -> 0 <= pw eps k.
Proof. intros He. induction k as [|k IH]; cbn [pw]; [lra|]. nra. Qed.
Lemma pw_gamma_mul eps : 0 <= eps -> forall k, pw eps k * (1 - qn k * eps) <= 1.
Proof.
  intros He. induction k as [|k IH].
  - cbn [pw]. change (qn 0) with 0. lra.
  - cbn [pw]. rewrite qn_S. pose proof (pw_nonneg eps k He) as Hp. pose proof (qn_nonneg k) as Hk.
    assert (E : (1 + eps) * pw eps k * (1 - (qn k + 1) * eps)
                == pw eps k * (1 - qn k * eps) - pw eps k * ((qn k + 1) * (eps * eps))) by ring.
    rewrite E. assert (0 <= pw eps k * ((qn k + 1) * (eps * eps))) by (apply Qmult_le_0_compat; [exact Hp|]; nra). lra.
Qed.
Definition gamma (eps : Q) (k : nat) : Q := qn k * eps / (1 - qn k * eps).
Theorem pw_le_gamma eps k : 0 <= eps -> qn k * eps < 1 -> pw eps k - 1 <= gamma eps k.
Proof.
  intros He Hk. unfold gamma. set (D := 1 - qn k * eps). assert (HD : 0 < D) by (unfold D; lra).
  pose proof (pw_gamma_mul eps He k) as H. fold D in H.
  apply Qle_shift_div_l; [exact HD|]. setoid_replace ((pw eps k - 1) * D) with (pw eps k * D - D) by ring. unfold D at 2. lra.
Qed.

(* the efficiency bound in closed form: what the C06 check evaluates with eps = 2^-53 *)
Theorem rkernel_efficiency_gamma (rnd : Q -> Q) (eps : Q) : 0 <= eps -> (forall x, Qabs (rnd x - x) <= eps * Qabs x) ->
  forall n (ts : list kpoint), (0 < n)%nat -> ts <> [] -> (forall t, In t ts -> Permutation (snd t) (seq 0 n)) ->
  qn (3 * n + length ts + 1) * eps < 1 ->
  Qabs (sumQ (fun x => x) (rkernel_t rnd n ts)
        - sumQ (fun t : kpoint => hd_u (fst (fst t)) (snd (fst t)) (snd t) - snd (fst t)) ts / qn (length ts))
  <= gamma eps (3 * n + length ts + 1) * (sumQ (fun t : kpoint => tv (fst (fst t)) (snd (fst t)) (snd t)) ts / qn (length ts)).
Proof.
  intros He Hr n ts Hn Hne Hp Hk. eapply Qle_trans; [apply (rkernel_efficiency rnd eps He Hr n ts Hn Hne Hp)|].
  apply Qmult_le_compat_r; [apply pw_le_gamma; assumption|].
  apply Qdiv_nonneg. apply sumQ_nonneg. intros t _.
  assert (G : forall u null l, 0 <= tv u null l).
  { intros u null l. induction l as [|q l IH]; cbn [tv]; [lra|]. pose proof (Qabs_nonneg (u q - hd_u u null l)). lra. }
  apply G.
Qed.
