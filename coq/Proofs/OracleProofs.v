(* C09: properties of the counting specification and of the oracle model. *)
From Coq Require Import List Arith Bool Lia.
From DS Require Import Model.ADD Spec.Count Model.Oracle Proofs.ADDProofs.
Import ListNotations.


Lemma tally_of_in_domain p target t1 t2 x : In (tally_of p target t1 t2 x) (domain (p_type p)).
Proof.
  unfold tally_of, p_type. destruct (_ && _).
  - apply clip_in_domain_tally.
  - unfold domain. apply in_or_app. right. left. reflexivity.
Qed.

(* the counts over all tallies always add up to 2^(units-1) *)
Theorem count_spec_total p target t1 t2 : sum_nat (count_spec p target t1 t2) = 2 ^ (p_units p - 1).
Proof.
  unfold count_spec. rewrite histogram_total.
  - rewrite map_length. apply bmasks_length.
  - unfold p_type. apply domain_nodup_of. apply domain_valid_tally_nodup.
  - intros v Hv. apply in_map_iff in Hv as [x [<- _]]. apply tally_of_in_domain.
Qed.
