(* Shapley-value theory proved once for all n and all games v : list bool -> Q:
   bruteforce form = marginal form, efficiency, symmetry, null player, linearity, OR-game value. *)
From Coq Require Import List Arith ZArith QArith Lia Bool Setoid Morphisms Permutation Lqa FinFun.
Import ListNotations.
Local Open Scope Q_scope.
From DS Require Import Util.SumQ Spec.Shapley.
Lemma qn_S k : qn (S k) == qn k + 1.
Proof. unfold qn. rewrite Nat2Z.inj_succ, <- Z.add_1_r, inject_Z_plus. reflexivity. Qed.
Lemma qn_mult a b : qn (a * b) == qn a * qn b.
Proof. unfold qn. rewrite Nat2Z.inj_mul, inject_Z_mult. reflexivity. Qed.
Lemma qf_S k : qf (S k) == qn (S k) * qf k.
Proof. unfold qf. cbn [fact]. change (fact k + k * fact k)%nat with (S k * fact k)%nat. apply qn_mult. Qed.
Lemma qn_pos k : (0 < k)%nat -> 0 < qn k.
Proof. intros H. unfold qn. change 0 with (inject_Z 0). rewrite <- Zlt_Qlt. lia. Qed.
Lemma qf_pos k : 0 < qf k.
Proof. apply qn_pos. apply lt_O_fact. Qed.
Lemma qf_nz k : ~ qf k == 0.
Proof. pose proof (qf_pos k). lra. Qed.

(* masks: membership and NoDup *)
Lemma masks_length n m : In m (masks n) <-> length m = n.
Proof.
  revert m; induction n as [|n IH]; intros m; cbn [masks].
  - split; [intros [<-|[]]; reflexivity|]. destruct m; [left; reflexivity|discriminate].
  - rewrite in_app_iff, !in_map_iff. split.
    + intros [[t [<- Ht]]|[t [<- Ht]]]; cbn [length]; f_equal; apply IH; exact Ht.
    + destruct m as [|b t]; [discriminate|]. cbn [length]. intros H; injection H as H.
      destruct b; [right|left]; exists t; split; try reflexivity; apply IH; exact H.
Qed.

Lemma NoDup_app' {A} (l1 l2 : list A) :
  NoDup l1 -> NoDup l2 -> (forall x, In x l1 -> In x l2 -> False) -> NoDup (l1 ++ l2).
Proof.
  induction l1 as [|a l1 IH]; intros H1 H2 H; cbn [app]; [exact H2|].
  inversion H1 as [|? ? Ha H1']; subst. constructor.
  - rewrite in_app_iff. intros [Hi|Hi]; [exact (Ha Hi)|]. apply (H a); [left; reflexivity|exact Hi].
  - apply IH; auto. intros x Hx Hy. apply (H x); [right; exact Hx|exact Hy].
Qed.

Lemma masks_nodup n : NoDup (masks n).
Proof.
  induction n as [|n IH]; cbn [masks]; [repeat constructor; intros []|].
  assert (Hinj : forall b, NoDup (map (cons b) (masks n))).
  { intros b. apply FinFun.Injective_map_NoDup; [|exact IH]. intros x y H; injection H; auto. }
  apply NoDup_app'; auto.
  intros x Hx Hy. apply in_map_iff in Hx as [t1 [<- _]]. apply in_map_iff in Hy as [t2 [H _]]. discriminate.
Qed.

(* ---- efficiency ---- *)

Lemma cnt_le m : (cnt m <= length m)%nat.
Proof. induction m as [|[] t IH]; cbn [cnt length]; lia. Qed.

Lemma sum_indicator (A B : Q) m :
  sumQ (fun i => if nth i m false then A else B) (seq 0 (length m))
  == qn (cnt m) * A + qn (length m - cnt m) * B.
Proof.
  induction m as [|b t IH].
  - cbn. unfold qn. cbn. ring.
  - cbn [length]. rewrite <- cons_seq, <- seq_shift, sumQ_cons, sumQ_map. cbn [nth].
    rewrite IH. pose proof (cnt_le t). destruct b; cbn [cnt].
    + replace (S (length t) - (1 + cnt t))%nat with (length t - cnt t)%nat by lia.
      change (1 + cnt t)%nat with (S (cnt t)). rewrite qn_S. ring.
    + change (0 + cnt t)%nat with (cnt t).
      replace (S (length t) - cnt t)%nat with (S (length t - cnt t)) by lia. rewrite qn_S. ring.
Qed.

Definition G (n s : nat) : Q := qn s * f1 n s + qn (n - s) * f0 n s.

Lemma G_mid n s : (0 < s)%nat -> (s < n)%nat -> G n s == 0.
Proof.
  intros H0 Hn. unfold G, f1, f0.
  destruct s as [|a]; [lia|]. remember (n - S a - 1)%nat as b.
  replace (n - S a)%nat with (S b) by lia. replace (S a - 1)%nat with a by lia.
  rewrite (qf_S a), (qf_S b). field. apply qf_nz.
Qed.

Lemma qf_0 : qf 0 == 1. Proof. reflexivity. Qed.
Lemma qn_0 : qn 0 == 0. Proof. reflexivity. Qed.

Lemma G_top n : (0 < n)%nat -> G n n == 1.
Proof.
  intros H. unfold G, f1, f0. rewrite Nat.sub_diag. destruct n as [|k]; [lia|].
  replace (S k - 1)%nat with k by lia. rewrite (qf_S k), qf_0, qn_0.
  field. split; [apply qf_nz|]. assert (0 < qn (S k)) by (apply qn_pos; lia). lra.
Qed.

Lemma G_bot n : (0 < n)%nat -> G n 0 == -1.
Proof.
  intros H. unfold G, f1, f0. rewrite Nat.sub_0_r. destruct n as [|k]; [lia|].
  replace (S k - 1)%nat with k by lia. rewrite (qf_S k), qf_0, qn_0.
  field. split; [apply qf_nz|]. assert (0 < qn (S k)) by (apply qn_pos; lia). lra.
Qed.


Lemma cnt_full m : cnt m = length m -> m = alltrue (length m).
Proof.
  induction m as [|b t IH]; [reflexivity|]. cbn [cnt length]. pose proof (cnt_le t) as Hle.
  destruct b; intros H; [|lia]. cbn. f_equal. apply IH. lia.
Qed.
Lemma cnt_empty m : cnt m = 0%nat -> m = allfalse (length m).
Proof.
  induction m as [|b t IH]; [reflexivity|]. cbn [cnt length]. destruct b; intros H; [lia|].
  cbn. f_equal. apply IH. exact H.
Qed.
Lemma cnt_alltrue n : cnt (alltrue n) = n. Proof. induction n; cbn; auto. Qed.
Lemma cnt_allfalse n : cnt (allfalse n) = 0%nat. Proof. induction n; cbn; auto. Qed.

Definition eqm (a b : list bool) : bool := if list_eq_dec bool_dec a b then true else false.

Lemma sumQ_delta (v : list bool -> Q) x l : NoDup l -> In x l ->
  sumQ (fun m => v m * (if eqm m x then 1 else 0)) l == v x.
Proof.
  induction l as [|a l IH]; intros Hnd Hin; [destruct Hin|].
  inversion Hnd as [|? ? Ha Hnd']; subst. rewrite sumQ_cons. unfold eqm at 1.
  destruct (list_eq_dec bool_dec a x) as [->|Hne].
  - rewrite (sumQ_ext _ (fun _ => 0)); [rewrite sumQ_zero; ring|].
    intros b Hb. unfold eqm. destruct (list_eq_dec bool_dec b x) as [->|]; [contradiction|ring].
  - destruct Hin as [->|Hin]; [contradiction|]. rewrite IH; auto. ring.
Qed.

Theorem shapley_efficiency n v : (0 < n)%nat ->
  sumQ (fun i => shapley_bf n v i) (seq 0 n) == v (alltrue n) - v (allfalse n).
Proof.
  intros Hn. unfold shapley_bf. rewrite sumQ_swap.
  rewrite (sumQ_ext _ (fun m => v m * (if eqm m (alltrue n) then 1 else 0)
                               + (- (v m * (if eqm m (allfalse n) then 1 else 0))))).
  - rewrite sumQ_plus.
    rewrite (sumQ_delta v (alltrue n)); [|apply masks_nodup|apply masks_length; apply repeat_length].
    assert (E : sumQ (fun a => - (v a * (if eqm a (allfalse n) then 1 else 0))) (masks n) == - v (allfalse n)).
    { rewrite (sumQ_ext _ (fun a => (-1) * (v a * (if eqm a (allfalse n) then 1 else 0)))); [|intros; ring].
      rewrite sumQ_scale, (sumQ_delta v (allfalse n)); [ring|apply masks_nodup|apply masks_length; apply repeat_length]. }
    rewrite E. ring.
  - intros m Hm. apply masks_length in Hm.
    rewrite sumQ_scale. unfold coef. rewrite <- Hm at 1. rewrite sum_indicator. rewrite Hm.
    fold (G n (cnt m)). pose proof (cnt_le m) as Hle. rewrite Hm in Hle.
    unfold eqm. destruct (list_eq_dec bool_dec m (alltrue n)) as [Et|Et];
      destruct (list_eq_dec bool_dec m (allfalse n)) as [Ef|Ef].
    + exfalso. rewrite Et in Ef. destruct n; [lia|discriminate].
    + rewrite Et, cnt_alltrue, G_top by exact Hn. ring.
    + rewrite Ef, cnt_allfalse, G_bot by exact Hn. ring.
    + rewrite G_mid; [ring| |].
      * destruct (cnt m) eqn:E; [|lia]. exfalso. apply Ef. rewrite <- Hm. apply cnt_empty. exact E.
      * destruct (Nat.eq_dec (cnt m) n) as [E|E]; [|lia]. exfalso. apply Et. rewrite <- Hm. apply cnt_full. lia.
Qed.

(* ---- symmetry ---- *)

Definition tau (i j k : nat) : nat := if Nat.eqb k i then j else if Nat.eqb k j then i else k.

Lemma tau_invol i j k : tau i j (tau i j k) = k.
Proof.
  unfold tau. destruct (Nat.eqb_spec k i) as [->|Hki].
  - destruct (Nat.eqb_spec j i) as [->|Hji]; [reflexivity|]. rewrite Nat.eqb_refl. reflexivity.
  - destruct (Nat.eqb_spec k j) as [->|Hkj].
    + rewrite Nat.eqb_refl. reflexivity.
    + destruct (Nat.eqb_spec k i); [contradiction|]. destruct (Nat.eqb_spec k j); [contradiction|]. reflexivity.
Qed.
Lemma tau_lt n i j k : (i < n)%nat -> (j < n)%nat -> (k < n)%nat -> (tau i j k < n)%nat.
Proof. unfold tau; intros; destruct (Nat.eqb k i), (Nat.eqb k j); assumption. Qed.
Lemma tau_i i j : tau i j i = j. Proof. unfold tau. rewrite Nat.eqb_refl. reflexivity. Qed.
Lemma tau_j i j : tau i j j = i.
Proof. unfold tau. destruct (Nat.eqb_spec j i) as [->|]; [reflexivity|]. rewrite Nat.eqb_refl. reflexivity. Qed.

Definition swapm (i j : nat) (m : list bool) : list bool :=
  map (fun k => nth (tau i j k) m false) (seq 0 (length m)).

Lemma swapm_length i j m : length (swapm i j m) = length m.
Proof. unfold swapm. rewrite map_length, seq_length. reflexivity. Qed.

Lemma swapm_nth i j m k : (k < length m)%nat -> nth k (swapm i j m) false = nth (tau i j k) m false.
Proof.
  intros Hk. unfold swapm.
  rewrite (nth_indep _ false (nth (tau i j 0) m false)) by (rewrite map_length, seq_length; exact Hk).
  rewrite (map_nth (fun k => nth (tau i j k) m false)). rewrite seq_nth by exact Hk. reflexivity.
Qed.

Lemma swapm_invol i j m : (i < length m)%nat -> (j < length m)%nat -> swapm i j (swapm i j m) = m.
Proof.
  intros Hi Hj. apply (nth_ext _ _ false false).
  - rewrite !swapm_length. reflexivity.
  - intros k Hk. rewrite !swapm_length in Hk.
    rewrite swapm_nth by (rewrite swapm_length; exact Hk).
    rewrite swapm_nth by (apply tau_lt; assumption).
    rewrite tau_invol. reflexivity.
Qed.

Lemma swapm_perm i j m : (i < length m)%nat -> (j < length m)%nat -> Permutation m (swapm i j m).
Proof.
  intros Hi Hj. apply (Permutation_nth m (swapm i j m) false). cbn zeta. split; [apply swapm_length|].
  exists (tau i j). split; [|split].
  - intros x Hx. apply tau_lt; assumption.
  - intros x y Hx Hy E. rewrite <- (tau_invol i j x), <- (tau_invol i j y), E. reflexivity.
  - intros x Hx. apply swapm_nth. exact Hx.
Qed.

Lemma cnt_perm m m' : Permutation m m' -> cnt m = cnt m'.
Proof. induction 1 as [|b l l' _ IH|a b l|l1 l2 l3 _ IH1 _ IH2]; cbn [cnt]; try lia. Qed.

Lemma swapm_cnt i j m : (i < length m)%nat -> (j < length m)%nat -> cnt (swapm i j m) = cnt m.
Proof. intros Hi Hj. symmetry. apply cnt_perm, swapm_perm; assumption. Qed.

(* reindexing the sum over all masks by an involution that preserves length *)
Lemma masks_reindex n (g : list bool -> list bool) (F : list bool -> Q) :
  (forall m, length m = n -> length (g m) = n) ->
  (forall m, length m = n -> g (g m) = m) ->
  sumQ (fun m => F (g m)) (masks n) == sumQ F (masks n).
Proof.
  intros Hlen Hinv. rewrite <- (sumQ_map g F). apply sumQ_perm.
  apply NoDup_Permutation.
  - (* NoDup (map g masks) *)
    assert (Hnd := masks_nodup n). revert Hnd.
    assert (Hin : forall m, In m (masks n) -> length m = n) by (intros m; apply masks_length).
    induction (masks n) as [|a l IH]; intros Hnd; cbn [map]; [constructor|].
    inversion Hnd as [|? ? Ha Hnd']; subst. constructor.
    + intros Hc. apply in_map_iff in Hc as [b [Hb Hbl]]. apply Ha.
      assert (b = a); [|subst; exact Hbl].
      rewrite <- (Hinv b), <- (Hinv a), Hb; auto. apply Hin; left; reflexivity. apply Hin; right; exact Hbl.
    + apply IH; auto. intros m Hm; apply Hin; right; exact Hm.
  - apply masks_nodup.
  - intros x. rewrite in_map_iff. split.
    + intros [m [<- Hm]]. apply masks_length. apply Hlen. apply masks_length. exact Hm.
    + intros Hx. apply masks_length in Hx. exists (g x). split; [apply Hinv; exact Hx|].
      apply masks_length. apply Hlen. exact Hx.
Qed.

Theorem shapley_symmetric n v i j : (i < n)%nat -> (j < n)%nat ->
  (forall m, length m = n -> v (swapm i j m) == v m) ->
  shapley_bf n v i == shapley_bf n v j.
Proof.
  intros Hi Hj Hv. unfold shapley_bf.
  rewrite <- (masks_reindex n (swapm i j) (fun m => v m * coef n i m)).
  - apply sumQ_ext. intros m Hm. apply masks_length in Hm. rewrite Hv by exact Hm.
    unfold coef. rewrite swapm_cnt by (rewrite Hm; assumption).
    rewrite swapm_nth by (rewrite Hm; assumption). rewrite tau_i. reflexivity.
  - intros m Hm. rewrite swapm_length. exact Hm.
  - intros m Hm. apply swapm_invol; rewrite Hm; assumption.
Qed.

(* ---- marginal form, null player, linearity ---- *)


Lemma masks_split n : forall i (F : list bool -> Q), (i < n)%nat ->
  sumQ F (masks n) == sumQ (fun m => if nth i m false then 0 else F m + F (setbit i m)) (masks n).
Proof.
  induction n as [|n IH]; intros i F Hi; [lia|].
  cbn [masks]. rewrite !sumQ_app, !sumQ_map. destruct i as [|i].
  - cbn [nth setbit]. rewrite sumQ_zero. rewrite sumQ_plus. ring.
  - cbn [nth setbit].
    rewrite (IH i (fun t => F (false :: t))) by lia. rewrite (IH i (fun t => F (true :: t))) by lia. reflexivity.
Qed.

Lemma setbit_length i m : length (setbit i m) = length m.
Proof. revert i; induction m as [|a t IH]; intros [|i]; cbn; auto. Qed.
Lemma setbit_nth i m : (i < length m)%nat -> nth i (setbit i m) false = true.
Proof. revert i; induction m as [|a t IH]; intros [|i] H; cbn in *; try lia; auto. apply IH; lia. Qed.
Lemma setbit_cnt i m : (i < length m)%nat -> nth i m false = false -> cnt (setbit i m) = S (cnt m).
Proof.
  revert i; induction m as [|a t IH]; intros [|i] H E; cbn in *; try lia.
  - subst a. reflexivity.
  - rewrite IH by (auto; lia). lia.
Qed.


Theorem shapley_bf_marginal n v i : (i < n)%nat -> shapley_bf n v i == shapley n v i.
Proof.
  intros Hi. unfold shapley_bf, shapley. rewrite (masks_split n i) by exact Hi.
  apply sumQ_ext. intros m Hm. apply masks_length in Hm.
  destruct (nth i m false) eqn:E; [reflexivity|].
  unfold coef. rewrite E, setbit_nth by (rewrite Hm; exact Hi).
  rewrite setbit_cnt by (rewrite ?Hm; auto). unfold f0, f1, w.
  replace (S (cnt m) - 1)%nat with (cnt m) by lia.
  replace (n - S (cnt m))%nat with (n - cnt m - 1)%nat by lia. field. apply qf_nz.
Qed.

Theorem shapley_null_player n v i : (i < n)%nat ->
  (forall m, length m = n -> v (setbit i m) == v m) -> shapley n v i == 0.
Proof.
  intros Hi Hv. unfold shapley. rewrite (sumQ_ext _ (fun _ => 0)); [apply sumQ_zero|].
  intros m Hm. apply masks_length in Hm. destruct (nth i m false); [reflexivity|]. rewrite Hv by exact Hm. ring.
Qed.

Theorem shapley_linear n v1 v2 a b i :
  shapley_bf n (fun m => a * v1 m + b * v2 m) i == a * shapley_bf n v1 i + b * shapley_bf n v2 i.
Proof.
  unfold shapley_bf. rewrite <- !sumQ_scale, <- sumQ_plus. apply sumQ_ext; intros; ring.
Qed.

(* ---- OR games ---- *)

Definition org (T : list nat) (m : list bool) : Q := if existsb (fun p => nth p m false) T then 1 else 0.

Lemma setbit_nth_other i q m : q <> i -> nth q (setbit i m) false = nth q m false.
Proof.
  revert i q; induction m as [|a t IH]; intros i q H.
  - destruct i, q; reflexivity.
  - destruct i as [|i], q as [|q]; cbn [setbit nth]; try reflexivity; [lia|]. apply IH; lia.
Qed.

Lemma org_null T i m : ~ In i T -> org T (setbit i m) = org T m.
Proof.
  intros Hni. unfold org.
  assert (E : existsb (fun p => nth p (setbit i m) false) T = existsb (fun p => nth p m false) T).
  { induction T as [|q T IH]; [reflexivity|]. cbn [existsb].
    rewrite setbit_nth_other by (intros ->; apply Hni; left; reflexivity).
    rewrite IH; [reflexivity|]. intros Hin; apply Hni; right; exact Hin. }
  rewrite E. reflexivity.
Qed.

Lemma tau_in T i j r : In i T -> In j T -> In r T -> In (tau i j r) T.
Proof. unfold tau; intros; destruct (Nat.eqb r i), (Nat.eqb r j); assumption. Qed.

Lemma org_swap T i j m : In i T -> In j T -> (forall r, In r T -> (r < length m)%nat) ->
  org T (swapm i j m) = org T m.
Proof.
  intros Hi Hj Hlt. unfold org.
  assert (E : existsb (fun p => nth p (swapm i j m) false) T = existsb (fun p => nth p m false) T).
  { apply eq_true_iff_eq. rewrite !existsb_exists. split.
    - intros [r [Hr E]]. rewrite swapm_nth in E by (apply Hlt; exact Hr).
      exists (tau i j r). split; [apply tau_in; assumption|exact E].
    - intros [r [Hr E]]. exists (tau i j r). split; [apply tau_in; assumption|].
      rewrite swapm_nth by (apply Hlt; apply tau_in; assumption). rewrite tau_invol. exact E. }
  rewrite E. reflexivity.
Qed.

Definition memb (x : nat) (l : list nat) : bool := existsb (Nat.eqb x) l.
Lemma memb_In x l : memb x l = true <-> In x l.
Proof. unfold memb. rewrite existsb_exists. split; [intros [y [Hy E]]; apply Nat.eqb_eq in E; subst; exact Hy|intros H; exists x; split; [exact H|apply Nat.eqb_refl]]. Qed.

Lemma sumQ_restrict (F : nat -> Q) (T l : list nat) : NoDup T -> NoDup l -> incl T l ->
  sumQ (fun i => if memb i T then F i else 0) l == sumQ F T.
Proof.
  intros HT Hl Hinc. rewrite <- sumQ_filter. apply sumQ_perm. apply NoDup_Permutation.
  - apply NoDup_filter; exact Hl.
  - exact HT.
  - intros x. rewrite filter_In, memb_In. split; [tauto|]. intros Hx; split; [apply Hinc; exact Hx|exact Hx].
Qed.

Lemma sumQ_const {A} (c : Q) (l : list A) : sumQ (fun _ => c) l == qn (length l) * c.
Proof. induction l as [|a l IH]; [cbn; unfold qn; cbn; ring|]. rewrite sumQ_cons, IH. cbn [length]. rewrite qn_S. ring. Qed.

Lemma existsb_alltrue T n : T <> [] -> (forall r, In r T -> (r < n)%nat) -> existsb (fun p => nth p (alltrue n) false) T = true.
Proof.
  intros Hne Hlt. destruct T as [|r T]; [contradiction|]. cbn [existsb].
  assert (E : nth r (alltrue n) false = true).
  { unfold alltrue. assert (Hr : (r < n)%nat) by (apply Hlt; left; reflexivity). clear -Hr. revert r Hr; induction n; intros [|r] H; cbn; try lia; auto. apply IHn; lia. }
  rewrite E. reflexivity.
Qed.
Lemma nth_allfalse r n : nth r (allfalse n) false = false.
Proof. unfold allfalse. revert r; induction n as [|n IH]; intros [|r]; cbn; auto. Qed.
Lemma existsb_allfalse T n : existsb (fun p => nth p (allfalse n) false) T = false.
Proof.
  induction T as [|r T IH]; [reflexivity|]. cbn [existsb]. rewrite IH, nth_allfalse. reflexivity.
Qed.

Theorem shapley_or_game n T p : NoDup T -> T <> [] -> (forall r, In r T -> (r < n)%nat) -> (p < n)%nat ->
  shapley_bf n (org T) p == if memb p T then 1 / qn (length T) else 0.
Proof.
  intros HT Hne Hlt Hp. assert (Hn : (0 < n)%nat) by lia.
  assert (Hout : forall i, (i < n)%nat -> ~ In i T -> shapley_bf n (org T) i == 0).
  { intros i Hi Hni. rewrite shapley_bf_marginal by exact Hi. apply shapley_null_player; [exact Hi|].
    intros m _. rewrite org_null by exact Hni. reflexivity. }
  destruct (memb p T) eqn:Ep.
  - apply memb_In in Ep.
    assert (Hsym : forall q, In q T -> shapley_bf n (org T) q == shapley_bf n (org T) p).
    { intros q Hq. apply shapley_symmetric; [apply Hlt; exact Hq|exact Hp|].
      intros m Hm. rewrite org_swap; [reflexivity|exact Hq|exact Ep|]. intros r Hr. rewrite Hm. apply Hlt; exact Hr. }
    pose proof (shapley_efficiency n (org T) Hn) as Heff.
    unfold org at 2 3 in Heff. rewrite existsb_alltrue, existsb_allfalse in Heff by assumption.
    rewrite (sumQ_ext _ (fun i => if memb i T then shapley_bf n (org T) i else 0)) in Heff.
    + rewrite sumQ_restrict in Heff; [|exact HT|apply seq_NoDup|intros r Hr; apply in_seq; split; [lia|apply Hlt; exact Hr]].
      rewrite (sumQ_ext _ (fun _ => shapley_bf n (org T) p)) in Heff by exact Hsym.
      rewrite sumQ_const in Heff.
      assert (Hpos : 0 < qn (length T)) by (apply qn_pos; destruct T; [contradiction|cbn; lia]).
      field_simplify_eq; [|lra]. lra.
    + intros i Hi. apply in_seq in Hi. destruct (memb i T) eqn:Ei; [reflexivity|].
      apply Hout; [lia|]. intros Hc. apply memb_In in Hc. congruence.
  - apply Hout; [exact Hp|]. intros Hc. apply memb_In in Hc. congruence.
Qed.
