(* C12: fork, row selection, the default provenance and grouped provenance act row-wise. *)
From Coq Require Import List Arith ZArith Bool Lia Sorting.Sorted.
From DS Require Import Util.ListX Spec.Dnf Model.Provenance Proofs.QueryCorrect.
Import ListNotations.
Local Open Scope Z_scope.

Definition repeat_each {A} (l : list A) (reps : list nat) : list A :=
  flat_map (fun '(a, k) => repeat a k) (combine l reps).

Lemma map_repeat {A B} (g : A -> B) a k : map g (repeat a k) = repeat (g a) k.
Proof. induction k as [|k IH]; [reflexivity|]. cbn [repeat map]. rewrite IH. reflexivity. Qed.

Lemma map_repeat_each {A B} (g : A -> B) l reps : map g (repeat_each l reps) = repeat_each (map g l) reps.
Proof.
  unfold repeat_each. revert reps. induction l as [|a l IH]; intros [|k reps]; cbn [combine flat_map map]; try reflexivity.
  rewrite map_app, map_repeat, IH. reflexivity.
Qed.

Theorem query_fork p reps vals : query (fork p reps) vals = repeat_each (query p vals) reps.
Proof. unfold query, fork. cbn [prow]. apply (map_repeat_each (query_row (vals ++ [-1])) (prow p) reps). Qed.

Theorem fork_length p reps : length reps = plen p -> plen (fork p reps) = fold_right Nat.add 0%nat reps.
Proof.
  unfold plen, fork. cbn [prow]. generalize (prow p) as l. intros l. revert reps.
  induction l as [|r l IH]; intros [|k reps] H; cbn [combine flat_map fold_right length] in *; try reflexivity; try discriminate.
  rewrite app_length, repeat_length, IH by lia. reflexivity.
Qed.

Theorem query_select p idx vals : query (select p idx) vals = map (fun i => nth i (query p vals) false) idx.
Proof.
  unfold query, select. cbn [prow]. rewrite map_map. apply map_ext. intros i.
  change false with (query_row (vals ++ [-1]) []). symmetry. apply map_nth.
Qed.

(* default provenance: row i present iff unit i has candidate 1 *)
Lemma query_single_lit (x : assignment) u v : (u < length x)%nat ->
  query_row (zs x ++ [-1]) [[(Z.of_nat u, Z.of_nat v)]] = Nat.eqb (nth u x 0%nat) v.
Proof.
  intros Hu. unfold query_row, query_conj. cbn [existsb forallb fst]. rewrite orb_false_r, andb_true_r.
  change (Z.of_nat u, Z.of_nat v) with (cell_of_lit (u, v)). rewrite query_cell_real by exact Hu.
  destruct (Z.eqb_spec (Z.of_nat u) (-1)) as [E|_]; [lia|]. cbn [negb]. rewrite orb_false_r, andb_true_r. reflexivity.
Qed.

Theorem query_default (x : assignment) n : length x = n ->
  query (default_prov n) (zs x) = map (fun i => Nat.eqb (nth i x 0%nat) 1) (seq 0 n).
Proof.
  intros Hx. unfold query, default_prov. cbn [prow]. rewrite map_map. apply map_ext_in. intros i Hi.
  apply in_seq in Hi. change 1 with (Z.of_nat 1). apply query_single_lit. lia.
Qed.

(* grouped provenance: units = sorted distinct identifiers; row i present iff the unit named ids[i] has candidate 1 *)
Lemma in_insert_sorted z y l : In y (insert_sorted z l) <-> y = z \/ In y l.
Proof.
  induction l as [|h t IH]; cbn [insert_sorted].
  - cbn [In]. intuition.
  - destruct (Z.ltb_spec z h); [cbn [In]; intuition|]. destruct (Z.eqb_spec z h) as [->|Hne].
    + cbn [In]. intuition.
    + cbn [In]. rewrite IH. intuition.
Qed.
Lemma in_sorted_distinct y l : In y (sorted_distinct l) <-> In y l.
Proof.
  induction l as [|a l IH]; [reflexivity|]. unfold sorted_distinct in *. cbn [fold_right].
  rewrite in_insert_sorted, IH. cbn [In]. intuition.
Qed.
Lemma insert_sorted_sorted z l : StronglySorted Z.lt l -> StronglySorted Z.lt (insert_sorted z l).
Proof.
  induction l as [|h t IH]; intros Hs; cbn [insert_sorted]; [repeat constructor|].
  inversion Hs as [|? ? Ht Hh]; subst.
  destruct (Z.ltb_spec z h) as [Hlt|Hge].
  - constructor; [exact Hs|]. constructor; [exact Hlt|]. rewrite Forall_forall in *. intros y Hy. specialize (Hh y Hy). lia.
  - destruct (Z.eqb_spec z h) as [->|Hne]; [exact Hs|]. constructor; [apply IH; exact Ht|].
    rewrite Forall_forall in *. intros y Hy. apply in_insert_sorted in Hy as [->|Hy]; [lia|apply Hh; exact Hy].
Qed.
Theorem sorted_distinct_sorted l : StronglySorted Z.lt (sorted_distinct l).
Proof. induction l as [|a l IH]; [constructor|]. unfold sorted_distinct in *. cbn [fold_right]. apply insert_sorted_sorted. exact IH. Qed.

Lemma position_lt z l : In z l -> (position z l < length l)%nat.
Proof.
  induction l as [|h t IH]; intros H; [destruct H|]. cbn [position length].
  destruct (Z.eqb_spec z h) as [->|Hne]; [lia|]. destruct H as [->|H]; [contradiction|]. specialize (IH H). lia.
Qed.
Lemma position_nth z l : In z l -> nth (position z l) l 0 = z.
Proof.
  induction l as [|h t IH]; intros H; [destruct H|]. cbn [position].
  destruct (Z.eqb_spec z h) as [->|Hne]; [reflexivity|]. destruct H as [->|H]; [contradiction|]. cbn [nth]. apply IH. exact H.
Qed.

Theorem query_grouped (ids : list Z) (x : assignment) : length x = length (grouped_units ids) ->
  query (grouped_prov ids) (zs x)
  = map (fun z => Nat.eqb (nth (position z (grouped_units ids)) x 0%nat) 1) ids.
Proof.
  intros Hx. unfold query, grouped_prov. cbn [prow]. rewrite map_map. apply map_ext_in. intros z Hz.
  change 1 with (Z.of_nat 1). apply query_single_lit. rewrite Hx. apply position_lt.
  unfold grouped_units. apply in_sorted_distinct. exact Hz.
Qed.
Theorem grouped_unit_named (ids : list Z) z : In z ids ->
  (position z (grouped_units ids) < length (grouped_units ids))%nat /\
  nth (position z (grouped_units ids)) (grouped_units ids) 0 = z.
Proof.
  intros Hz. assert (H : In z (grouped_units ids)) by (apply in_sorted_distinct; exact Hz).
  split; [apply position_lt|apply position_nth]; exact H.
Qed.

Theorem grouped_units_spec (ids : list Z) :
  StronglySorted Z.lt (grouped_units ids) /\ (forall z, In z (grouped_units ids) <-> In z ids) /\
  (forall z, In z ids -> (position z (grouped_units ids) < length (grouped_units ids))%nat /\
                         nth (position z (grouped_units ids)) (grouped_units ids) 0 = z).
Proof.
  split; [apply sorted_distinct_sorted|]. split; [intros z; apply in_sorted_distinct|apply grouped_unit_named].
Qed.
