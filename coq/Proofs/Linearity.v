(* C08 / C06 on the MODELS of the scoring loops (not only on the abstract Shapley value):
   - bruteforce is linear in the utility when no coalition evaluation fails, and efficient for every utility;
   - compute_shapley_add's loop is linear in (utility table, null vector) for ANY oracle, provenance, K and distances (no
     distinctness hypothesis: linearity is a property of the loop itself), and efficient under C02's hypotheses. *)
From Coq Require Import List Arith ZArith QArith Lia Lqa Bool Setoid.
From DS Require Import Util.SumQ Spec.Shapley Spec.Dnf Model.Provenance Model.Bruteforce Model.ADD Spec.Count Spec.Knn Model.ShapleyAdd
     Proofs.ShapleyAxioms Proofs.BruteforceShapley Proofs.KernelFull Proofs.KnnShapley.
Import ListNotations.
Local Open Scope Q_scope.

(* ---------- bruteforce ---------- *)
(* JointUtility.__call__: the weighted sum of the component scores; any failing component makes the joint evaluation fail *)
Definition joint_utility (a b : Q) (u1 u2 : utility) : utility :=
  fun rows => match u1 rows, u2 rows with Ok x, Ok y => Ok (a * x + b * y) | _, _ => Failed end.

Lemma shapley_ext n v v' i : (i < n)%nat -> (forall m, length m = n -> v m == v' m) -> shapley n v i == shapley n v' i.
Proof.
  intros Hi H. rewrite <- !shapley_bf_marginal by exact Hi. unfold shapley_bf. apply sumQ_ext. intros m Hm. apply masks_length in Hm.
  rewrite (H m Hm). reflexivity.
Qed.

Theorem bruteforce_linear n p u1 u2 a b null1 null2 nullj i : (i < n)%nat ->
  (forall m, length m = n -> u1 (rows_selected p m) <> Failed /\ u2 (rows_selected p m) <> Failed) ->
  nth i (bruteforce n p (joint_utility a b u1 u2) nullj) 0
  == a * nth i (bruteforce n p u1 null1) 0 + b * nth i (bruteforce n p u2 null2) 0.
Proof.
  intros Hi Hok. rewrite !bruteforce_is_shapley by exact Hi. rewrite <- !shapley_bf_marginal by exact Hi. rewrite <- shapley_linear.
  unfold shapley_bf. apply sumQ_ext. intros m Hm. apply masks_length in Hm. destruct (Hok m Hm) as [H1 H2].
  unfold bf_game, score_of, joint_utility. destruct (u1 (rows_selected p m)); [|congruence]. destruct (u2 (rows_selected p m)); [|congruence]. reflexivity.
Qed.

Lemma bruteforce_length n p u null : length (bruteforce n p u null) = n.
Proof.
  unfold bruteforce. assert (G : forall ms acc, length acc = n -> (forall m, In m ms -> length m = n) -> length (fold_left (bf_step n p u null) ms acc) = n).
  { induction ms as [|m ms IH]; intros acc Ha Hm; [exact Ha|]. cbn [fold_left]. apply IH; [|intros m' Hm'; apply Hm; right; exact Hm'].
    unfold bf_step. rewrite map_length, combine_length, Ha, (Hm m (or_introl eq_refl)). apply Nat.min_id. }
  apply G; [apply repeat_length|]. intros m Hm. apply masks_length. exact Hm.
Qed.

Lemma sumQ_nth_seq (l : list Q) : sumQ (fun x => x) l == sumQ (fun i => nth i l 0) (seq 0 (length l)).
Proof.
  induction l as [|a l IH]; [reflexivity|]. cbn [length seq]. rewrite !sumQ_cons. cbn [nth]. rewrite IH, <- seq_shift, sumQ_map. reflexivity.
Qed.

(* the bruteforce scores of all units sum to the utility of the rows present under the all-one assignment minus the utility of the
   rows present under the all-zero assignment -- for EVERY utility, failing coalitions being worth the null score *)
Theorem bruteforce_efficiency n p u null : (0 < n)%nat ->
  sumQ (fun x => x) (bruteforce n p u null) == bf_game p u null (alltrue n) - bf_game p u null (allfalse n).
Proof.
  intros Hn. rewrite sumQ_nth_seq, bruteforce_length. rewrite <- (shapley_efficiency n (bf_game p u null) Hn).
  apply sumQ_ext. intros i Hi. apply in_seq in Hi. rewrite bruteforce_is_shapley by lia. rewrite shapley_bf_marginal by lia. reflexivity.
Qed.

(* ---------- the ADD-path loop ---------- *)
Definition lin_col (a b : Q) (u1 u2 : list Q) : list Q := map (fun xy => a * fst xy + b * snd xy) (combine u1 u2).
Lemma lin_col_nth a b : forall u1 u2 k, length u1 = length u2 -> nth k (lin_col a b u1 u2) 0 == a * nth k u1 0 + b * nth k u2 0.
Proof.
  induction u1 as [|x u1 IH]; intros [|y u2] k H; try discriminate.
  - destruct k; cbn; ring.
  - destruct k; cbn [lin_col combine map nth fst snd]; [reflexivity|]. apply IH. cbn in H. lia.
Qed.

Lemma entry_term_linear p n a b uc1 uc2 nl1 nl2 t2 e cnt : length uc1 = length uc2 ->
  entry_term p n (lin_col a b uc1 uc2) (a * nl1 + b * nl2) t2 e cnt
  == a * entry_term p n uc1 nl1 t2 e cnt + b * entry_term p n uc2 nl2 t2 e cnt.
Proof.
  intros HL. unfold entry_term. destruct e as [v|]; [|ring].
  match goal with |- (if ?c then _ else _) == _ => destruct c end; [ring|].
  destruct t2; rewrite !lin_col_nth by exact HL; ring.
Qed.

Theorem add_point_linear p o a b uc1 uc2 nl1 nl2 i : length uc1 = length uc2 ->
  nth i (shapley_add_point p o (lin_col a b uc1 uc2) (a * nl1 + b * nl2)) 0
  == a * nth i (shapley_add_point p o uc1 nl1) 0 + b * nth i (shapley_add_point p o uc2 nl2) 0.
Proof.
  intros HL. unfold shapley_add_point. destruct (Nat.lt_ge_cases i (p_units p)) as [Hi|Hi].
  - rewrite !map_nth_seq by exact Hi. rewrite <- !sumQ_scale, <- sumQ_plus. apply sumQ_ext. intros t1 _.
    rewrite <- !sumQ_scale, <- sumQ_plus. apply sumQ_ext. intros t2 _. rewrite <- !sumQ_scale, <- sumQ_plus. apply sumQ_ext. intros ec _.
    apply entry_term_linear. exact HL.
  - rewrite !nth_overflow by (rewrite map_length, seq_length; exact Hi). ring.
Qed.

(* one record per validation point: problem, oracle, and the two component utilities (column of the utility table, null value) *)
Definition vpoint := (cprob * oracle_fn * (list Q * Q) * (list Q * Q))%type.
Definition vp_p (t : vpoint) := fst (fst (fst t)).
Definition vp_o (t : vpoint) := snd (fst (fst t)).
Definition vp_1 (t : vpoint) := snd (fst t).
Definition vp_2 (t : vpoint) := snd t.

Lemma combine_map_same {A B C} (f : A -> B) (g : A -> C) (l : list A) : combine (map f l) (map g l) = map (fun x => (f x, g x)) l.
Proof. induction l as [|x l IH]; [reflexivity|]. cbn [map combine]. rewrite IH. reflexivity. Qed.

Lemma shapley_add_pts (pts : list vpoint) (uc : vpoint -> list Q) (nl : vpoint -> Q) n i : (i < n)%nat ->
  nth i (shapley_add (map vp_p pts) (map vp_o pts) (map uc pts) (map nl pts) n) 0
  == sumQ (fun t => nth i (shapley_add_point (vp_p t) (vp_o t) (uc t) (nl t)) 0) pts / (qn n * qn (length pts)).
Proof.
  intros Hi. unfold shapley_add. rewrite map_nth_seq by exact Hi. rewrite !combine_map_same, sumQ_map, map_length. reflexivity.
Qed.

(* compute_shapley_add under a joint utility = the same weighted sum of the results under the components, for ANY oracle answers,
   provenance, K, class count and distances *)
Theorem add_linear (pts : list vpoint) a b n i : (i < n)%nat ->
  (forall t, In t pts -> length (fst (vp_1 t)) = length (fst (vp_2 t))) ->
  nth i (shapley_add (map vp_p pts) (map vp_o pts)
                     (map (fun t => lin_col a b (fst (vp_1 t)) (fst (vp_2 t))) pts)
                     (map (fun t => a * snd (vp_1 t) + b * snd (vp_2 t)) pts) n) 0
  == a * nth i (shapley_add (map vp_p pts) (map vp_o pts) (map (fun t => fst (vp_1 t)) pts) (map (fun t => snd (vp_1 t)) pts) n) 0
   + b * nth i (shapley_add (map vp_p pts) (map vp_o pts) (map (fun t => fst (vp_2 t)) pts) (map (fun t => snd (vp_2 t)) pts) n) 0.
Proof.
  intros Hi HL. rewrite !shapley_add_pts by exact Hi.
  rewrite (sumQ_ext _ (fun t => a * nth i (shapley_add_point (vp_p t) (vp_o t) (fst (vp_1 t)) (snd (vp_1 t))) 0
                               + b * nth i (shapley_add_point (vp_p t) (vp_o t) (fst (vp_2 t)) (snd (vp_2 t))) 0)).
  - rewrite sumQ_plus, !sumQ_scale. unfold Qdiv. ring.
  - intros t Ht. apply add_point_linear. apply HL. exact Ht.
Qed.

(* efficiency of the ADD path (any K, any conjunctive provenance, distinct distances): the scores sum to the KNN utility of the
   whole training set minus that of the empty one *)
Lemma shapley_add_length ps os ucols nulls n : length (shapley_add ps os ucols nulls n) = n.
Proof. unfold shapley_add. rewrite map_length, seq_length. reflexivity. Qed.

Theorem add_efficiency n K C rows labels dists ucols nulls : (0 < n)%nat -> (1 <= K)%nat ->
  (forall r, (r < length rows)%nat -> (nth r labels 0 < C)%nat) ->
  (forall d, In d dists -> length d = length rows /\ NoDup (map Qred d)) ->
  sumQ (fun x => x) (shapley_add (map (fun d => mkProb n rows labels d (n - 1) K C) dists)
                                 (map (fun p => count_spec p) (map (fun d => mkProb n rows labels d (n - 1) K C) dists)) ucols nulls n)
  == v_knn K C rows labels dists ucols nulls (alltrue n) - v_knn K C rows labels dists ucols nulls (allfalse n).
Proof.
  intros Hn HK Hlab Hd. rewrite sumQ_nth_seq, shapley_add_length. rewrite <- (shapley_efficiency n (v_knn K C rows labels dists ucols nulls) Hn).
  apply sumQ_ext. intros i Hi. apply in_seq in Hi. rewrite add_is_shapley by (assumption || lia). rewrite shapley_bf_marginal by lia. reflexivity.
Qed.
