(* C15, C17, C18, C20: statements about the explicit-hidden-state models of Model/Runtime.v. *)
From Coq Require Import List Arith ZArith QArith Bool Lia.
From DS Require Import Model.Runtime.
Import ListNotations.
Local Open Scope Q_scope.

(* C15 *)
Theorem fallback (e : evaluation) (null : Q) :
  (handled e = true -> exists q, method_score e null = RScore q /\
                                 (match e with EOk s => q = s | _ => q = null end)) /\
  (handled e = false -> method_score e null = RRaise).
Proof. destruct e; cbn; split; intros H; try discriminate; eauto. Qed.
Theorem utility_fallback (e : evaluation) (ns : Q) computed b :
  match e with EValueError | ERuntimeWarning => utility_call e (Some ns) computed b = RScore ns | _ => True end.
Proof. destruct e; cbn; auto. Qed.

(* C17 *)
Section Det.
  Variable data params : Type.
  Variable stream : Z -> list (list nat).
  Variable nb bf : data -> params -> list Q.
  Variable mc : data -> params -> list (list nat) -> list Q.
  Theorem noninterference m d p seed h1 h2 :
    score_impl data params stream nb bf mc m d p seed h1 = score_impl data params stream nb bf mc m d p seed h2.
  Proof. destruct m; reflexivity. Qed.
  Theorem seed_only_via_perms d p s1 s2 h : stream s1 = stream s2 ->
    score_impl data params stream nb bf mc MonteCarlo d p s1 h = score_impl data params stream nb bf mc MonteCarlo d p s2 h.
  Proof. intros E. cbn. rewrite E. reflexivity. Qed.
  Theorem neighbor_bruteforce_seed_free m d p s1 s2 h : m <> MonteCarlo ->
    score_impl data params stream nb bf mc m d p s1 h = score_impl data params stream nb bf mc m d p s2 h.
  Proof. destruct m; intros H; try reflexivity. contradiction. Qed.
End Det.

(* C18 *)
Theorem same_decode_same_score (repr raw canonical : Type) (decode : repr -> raw -> canonical) (score : canonical -> list Q)
        r1 r2 x1 x2 : decode r1 x1 = decode r2 x2 -> score_r repr raw canonical decode score r1 x1 = score_r repr raw canonical decode score r2 x2.
Proof. intros E. unfold score_r. rewrite E. reflexivity. Qed.

(* C20 *)
Section St.
  Variable obj fitted : Type.
  Variable mkfit : list obj -> list nat -> fitted.
  Variable mkscore : fitted -> list obj -> list nat -> list Q.
  Theorem store_invariant : forall cs (w : world obj fitted),
    w_store (fst (run obj fitted mkfit mkscore w cs)) = w_store w.
  Proof.
    induction cs as [|c t IH]; intros w; [reflexivity|]. cbn [run].
    destruct (step obj fitted mkfit mkscore w c) as [w1 o] eqn:E.
    specialize (IH w1). destruct (run obj fitted mkfit mkscore w1 t) as [w2 os]. cbn [fst] in *.
    rewrite IH. destruct c; cbn [step] in E; injection E as <- _; reflexivity.
  Qed.
  (* a score depends on the last fit of that object and on the store only: earlier calls on other objects are invisible *)
  Theorem score_depends_on_last_fit (w : world obj fitted) who refs refs' other orefs :
    other <> who -> (who < length (w_fitted w))%nat -> (other < length (w_fitted w))%nat ->
    snd (step obj fitted mkfit mkscore
              (fst (step obj fitted mkfit mkscore (fst (step obj fitted mkfit mkscore w (Fit who refs))) (Fit other orefs)))
              (Score who refs'))
    = snd (step obj fitted mkfit mkscore (fst (step obj fitted mkfit mkscore w (Fit who refs))) (Score who refs')).
  Proof.
    intros Hne Hw Ho. cbn [step fst snd w_fitted w_store]. unfold set_nth'.
    assert (E : forall (A : Type) (l : list A) (i j : nat) (v u d : A), j <> i -> (i < length l)%nat -> (j < length l)%nat ->
                nth i (firstn j (firstn i l ++ v :: skipn (S i) l) ++ u :: skipn (S j) (firstn i l ++ v :: skipn (S i) l)) d
                = nth i (firstn i l ++ v :: skipn (S i) l) d).
    { clear. intros A l i j v u d Hne Hi Hj. set (l1 := firstn i l ++ v :: skipn (S i) l).
      assert (L1 : length l1 = length l).
      { unfold l1. rewrite app_length, firstn_length, Nat.min_l by lia. cbn [length]. rewrite skipn_length. lia. }
      destruct (Nat.lt_ge_cases i j) as [Hlt|Hge].
      - rewrite app_nth1 by (rewrite firstn_length; lia). rewrite <- (firstn_skipn j l1) at 2.
        rewrite app_nth1 by (rewrite firstn_length; lia). reflexivity.
      - rewrite app_nth2 by (rewrite firstn_length; lia). rewrite firstn_length, Nat.min_l by lia.
        destruct (i - j)%nat as [|k] eqn:Ek; [lia|]. cbn [nth].
        rewrite <- (firstn_skipn (S j) l1) at 2. rewrite app_nth2 by (rewrite firstn_length; lia).
        rewrite firstn_length, Nat.min_l by lia. f_equal. lia. }
    rewrite E by assumption. reflexivity.
  Qed.
  Theorem repeat_equal (w : world obj fitted) who refs :
    snd (step obj fitted mkfit mkscore (fst (step obj fitted mkfit mkscore w (Score who refs))) (Score who refs))
    = snd (step obj fitted mkfit mkscore w (Score who refs)).
  Proof. reflexivity. Qed.
End St.
