(* C04: when every permutation is sampled equally often the Monte-Carlo estimator is the exact Shapley value.
   The counting lemma: over all permutations of a duplicate-free list l containing p, the set of players before p
   equals a given S (not containing p) exactly |S|! (|l|-1-|S|)! times. *)
From Coq Require Import List Arith ZArith QArith Lia Bool Setoid Morphisms Permutation Lqa.
From DS Require Import Util.SumQ Util.ListX Spec.Shapley Model.Provenance Model.Bruteforce Model.MonteCarlo
     Proofs.ShapleyAxioms Proofs.KernelFull Proofs.MonteCarloProofs Proofs.ADDProofs.
Import ListNotations.
Local Open Scope Q_scope.

Definition inv (G : list nat -> Q) : Prop := forall l l', Permutation l l' -> G l == G l'.

(* subsets of a list, "without the head" first (this is the order of `masks`) *)
Fixpoint sublists (l : list nat) : list (list nat) :=
  match l with [] => [[]] | a :: t => sublists t ++ map (cons a) (sublists t) end.

Lemma sumQ_flat_map {A B} (f : B -> Q) (g : A -> list B) l : sumQ f (flat_map g l) == sumQ (fun a => sumQ f (g a)) l.
Proof. induction l as [|a l IH]; [reflexivity|]. cbn [flat_map]. rewrite sumQ_app, sumQ_cons, IH. reflexivity. Qed.

Lemma sumQ_seq_S (f : nat -> Q) n : sumQ f (seq 0 (S n)) == f 0%nat + sumQ (fun k => f (S k)) (seq 0 n).
Proof. rewrite <- cons_seq, <- seq_shift, sumQ_cons, sumQ_map. reflexivity. Qed.

Lemma ins_all_length a : forall l x, In x (ins_all a l) -> length x = S (length l).
Proof.
  induction l as [|b t IH]; intros x H; cbn [ins_all] in H.
  - destruct H as [<-|[]]. reflexivity.
  - destruct H as [<-|H]; [reflexivity|]. apply in_map_iff in H as [y [<- Hy]]. cbn [length]. rewrite (IH y Hy). reflexivity.
Qed.
Lemma ins_all_count a l : length (ins_all a l) = S (length l).
Proof. induction l as [|b t IH]; [reflexivity|]. cbn [ins_all length]. rewrite map_length, IH. reflexivity. Qed.
Lemma perms_length : forall l x, In x (perms l) -> length x = length l.
Proof.
  induction l as [|a t IH]; intros x H; cbn [perms] in H; [destruct H as [<-|[]]; reflexivity|].
  apply in_flat_map in H as [y [Hy H]]. rewrite (ins_all_length a y x H), (IH y Hy). reflexivity.
Qed.

(* Lemma A: prefixes of all insertions of a into pi *)
Lemma prefix_insert (a : nat) : forall (pi : list nat) (G : list nat -> Q), inv G ->
  sumQ (fun p' => sumQ (fun k => G (firstn k p')) (seq 0 (S (S (length pi))))) (ins_all a pi)
  == sumQ (fun k => qn (S k) * G (a :: firstn k pi)) (seq 0 (S (length pi)))
     + sumQ (fun k => qn (S (length pi) - k) * G (firstn k pi)) (seq 0 (S (length pi))).
Proof.
  induction pi as [|b t IH]; intros G HG.
  - cbn [ins_all length seq sumQ fold_right firstn Nat.sub]. unfold qn. cbn. ring.
  - cbn [ins_all length]. rewrite sumQ_cons, sumQ_map.
    (* the insertions behind b *)
    assert (E2 : sumQ (fun x => sumQ (fun k => G (firstn k (b :: x))) (seq 0 (S (S (S (length t)))))) (ins_all a t)
                 == qn (S (length t)) * G [] + (sumQ (fun k => qn (S k) * G (b :: a :: firstn k t)) (seq 0 (S (length t)))
                    + sumQ (fun k => qn (S (length t) - k) * G (b :: firstn k t)) (seq 0 (S (length t))))).
    { rewrite (sumQ_ext _ (fun x => G [] + sumQ (fun k => G (b :: firstn k x)) (seq 0 (S (S (length t)))))).
      - rewrite sumQ_plus, sumQ_const, ins_all_count.
        rewrite (IH (fun L => G (b :: L))); [reflexivity|]. intros l l' Hp. apply HG. constructor. exact Hp.
      - intros x _. rewrite sumQ_seq_S. cbn [firstn]. reflexivity. }
    rewrite E2.
    (* the insertion in front *)
    rewrite (sumQ_seq_S (fun k => G (firstn k (a :: b :: t)))). cbn [firstn].
    rewrite (sumQ_seq_S (fun k => G (a :: firstn k (b :: t)))). cbn [firstn].
    (* the target, split at k = 0 *)
    rewrite (sumQ_seq_S (fun k => qn (S k) * G (a :: firstn k (b :: t)))). cbn [firstn].
    rewrite (sumQ_seq_S (fun k => qn (S (S (length t)) - k) * G (firstn k (b :: t)))). cbn [firstn].
    rewrite (sumQ_ext (fun k => qn (S k) * G (b :: a :: firstn k t)) (fun k => qn (S k) * G (a :: b :: firstn k t)))
      by (intros k _; rewrite (HG (b :: a :: firstn k t) (a :: b :: firstn k t)) by constructor; reflexivity).
    rewrite (sumQ_ext (fun k => qn (S (S k)) * G (a :: b :: firstn k t))
                      (fun k => G (a :: b :: firstn k t) + qn (S k) * G (a :: b :: firstn k t)))
      by (intros k _; rewrite (qn_S (S k)); ring).
    rewrite sumQ_plus.
    rewrite (sumQ_ext (fun k => qn (S (S (length t)) - S k) * G (b :: firstn k t)) (fun k => qn (S (length t) - k) * G (b :: firstn k t)))
      by (intros k _; reflexivity).
    replace (S (S (length t)) - 0)%nat with (S (S (length t))) by lia. rewrite (qn_S (S (length t))).
    assert (Q1 : qn 1 == 1) by reflexivity. rewrite Q1. ring.
Qed.

Lemma sublists_length_le : forall l sb, In sb (sublists l) -> (length sb <= length l)%nat.
Proof.
  induction l as [|a t IH]; intros sb H; cbn [sublists] in H; [destruct H as [<-|[]]; cbn; lia|].
  apply in_app_or in H as [H|H]; [specialize (IH sb H); cbn; lia|].
  apply in_map_iff in H as [sb' [<- H]]. specialize (IH sb' H). cbn. lia.
Qed.

Lemma firstn_length_le' {A} (l : list A) k : (k <= length l)%nat -> length (firstn k l) = k.
Proof. intros H. rewrite firstn_length. lia. Qed.

(* Lemma L: over all permutations of l, every prefix set S occurs |S|! (|l|-|S|)! times *)
Theorem prefix_count : forall (l : list nat) (G : list nat -> Q), inv G ->
  sumQ (fun pi => sumQ (fun k => G (firstn k pi)) (seq 0 (S (length l)))) (perms l)
  == sumQ (fun S => qf (length S) * qf (length l - length S) * G S) (sublists l).
Proof.
  induction l as [|a t IH]; intros G HG.
  - cbn. unfold qf, qn. cbn. ring.
  - cbn [perms sublists length]. rewrite sumQ_flat_map.
    rewrite (sumQ_ext _ (fun pi => sumQ (fun k => qn (S k) * G (a :: firstn k pi)) (seq 0 (S (length t)))
                                   + sumQ (fun k => qn (S (length t) - k) * G (firstn k pi)) (seq 0 (S (length t))))).
    2:{ intros pi Hpi. rewrite <- (perms_length t pi Hpi). apply prefix_insert. exact HG. }
    rewrite sumQ_plus.
    (* first part: IH with G1 L = (|L|+1) G (a :: L) *)
    rewrite (sumQ_ext (fun pi => sumQ (fun k => qn (S k) * G (a :: firstn k pi)) (seq 0 (S (length t))))
                      (fun pi => sumQ (fun k => (fun L => qn (S (length L)) * G (a :: L)) (firstn k pi)) (seq 0 (S (length t))))).
    2:{ intros pi Hpi. apply sumQ_ext. intros k Hk. apply in_seq in Hk. cbv beta.
        rewrite firstn_length_le' by (rewrite (perms_length t pi Hpi); lia). reflexivity. }
    rewrite (IH (fun L => qn (S (length L)) * G (a :: L))).
    2:{ intros l1 l2 Hp. rewrite (Permutation_length Hp), (HG (a :: l1) (a :: l2)) by (constructor; exact Hp). reflexivity. }
    (* second part: IH with G2 L = (|t|+1-|L|) G L *)
    rewrite (sumQ_ext (fun pi => sumQ (fun k => qn (S (length t) - k) * G (firstn k pi)) (seq 0 (S (length t))))
                      (fun pi => sumQ (fun k => (fun L => qn (S (length t) - length L) * G L) (firstn k pi)) (seq 0 (S (length t))))).
    2:{ intros pi Hpi. apply sumQ_ext. intros k Hk. apply in_seq in Hk. cbv beta.
        rewrite firstn_length_le' by (rewrite (perms_length t pi Hpi); lia). reflexivity. }
    rewrite (IH (fun L => qn (S (length t) - length L) * G L)).
    2:{ intros l1 l2 Hp. rewrite (Permutation_length Hp), (HG l1 l2 Hp). reflexivity. }
    rewrite sumQ_app, sumQ_map. rewrite Qplus_comm. apply Qplus_comp.
    + apply sumQ_ext. intros sb HS. pose proof (sublists_length_le t sb HS) as Hle.
      replace (S (length t) - length sb)%nat with (S (length t - length sb)) by lia. rewrite (qf_S (length t - length sb)). ring.
    + apply sumQ_ext. intros sb HS. pose proof (sublists_length_le t sb HS) as Hle. cbn [length].
      replace (S (length t) - S (length sb))%nat with (length t - length sb)%nat by lia. rewrite (qf_S (length sb)). ring.
Qed.

(* ---------- the players before p ---------- *)
Lemma before_head_eq p r : before (p :: r) p = [].
Proof. cbn [before]. rewrite Nat.eqb_refl. reflexivity. Qed.
Lemma before_head_neq a p r : a <> p -> before (a :: r) p = a :: before r p.
Proof. intros H. cbn [before]. destruct (Nat.eqb_spec a p); [contradiction|reflexivity]. Qed.
Lemma before_length_le r p : (length (before r p) <= length r)%nat.
Proof. induction r as [|a r IH]; [cbn; lia|]. cbn [before]. destruct (Nat.eqb a p); cbn [length]; lia. Qed.
Lemma before_length_lt r p : In p r -> (length (before r p) < length r)%nat.
Proof.
  induction r as [|a r IH]; intros H; [destruct H|]. cbn [before]. destruct (Nat.eqb_spec a p) as [->|Hne]; cbn [length]; [lia|].
  destruct H as [->|H]; [contradiction|]. specialize (IH H). lia.
Qed.

(* inserting p itself (p not in pi): the sets before p are the prefixes of pi *)
Lemma insert_self p : forall pi (g : list nat -> Q), ~ In p pi ->
  sumQ (fun x => g (before x p)) (ins_all p pi) == sumQ (fun k => g (firstn k pi)) (seq 0 (S (length pi))).
Proof.
  induction pi as [|b r IH]; intros g Hp.
  - cbn [ins_all sumQ fold_right length seq firstn]. rewrite before_head_eq. reflexivity.
  - cbn [ins_all length]. rewrite sumQ_cons, sumQ_map, before_head_eq.
    assert (Hb : b <> p) by (intros ->; apply Hp; left; reflexivity).
    rewrite (sumQ_ext _ (fun x => g (b :: before x p))) by (intros x _; rewrite before_head_neq by exact Hb; reflexivity).
    rewrite (IH (fun L => g (b :: L))) by (intros Hc; apply Hp; right; exact Hc).
    rewrite (sumQ_seq_S (fun k => g (firstn k (b :: r)))). cbn [firstn]. reflexivity.
Qed.

(* inserting another player a: it lands before p in |before|+1 of the insertions *)
Lemma insert_other a p : a <> p -> forall pi (g : list nat -> Q), inv g -> In p pi ->
  sumQ (fun x => g (before x p)) (ins_all a pi)
  == qn (S (length (before pi p))) * g (a :: before pi p) + qn (length pi - length (before pi p)) * g (before pi p).
Proof.
  intros Hap. induction pi as [|b r IH]; intros g Hg Hp; [destruct Hp|].
  cbn [ins_all]. rewrite sumQ_cons, sumQ_map. rewrite (before_head_neq a p (b :: r) Hap).
  destruct (Nat.eq_dec b p) as [->|Hb].
  - rewrite before_head_eq. rewrite (sumQ_ext _ (fun _ => g [])) by (intros x _; apply (f_equal g), before_head_eq || (rewrite before_head_eq; reflexivity)).
    rewrite sumQ_const, ins_all_count. cbn [length]. replace (S (length r) - 0)%nat with (S (length r)) by lia.
    assert (Q1 : qn 1 == 1) by reflexivity. rewrite Q1. ring.
  - destruct Hp as [->|Hp]; [contradiction|].
    rewrite (before_head_neq b p r Hb).
    rewrite (sumQ_ext _ (fun x => g (b :: before x p))) by (intros x _; rewrite before_head_neq by exact Hb; reflexivity).
    rewrite (IH (fun L => g (b :: L))); [|intros l l' Hl; apply Hg; constructor; exact Hl|exact Hp].
    cbn [length]. pose proof (before_length_lt r p Hp) as Hlt.
    replace (S (length r) - S (length (before r p)))%nat with (length r - length (before r p))%nat by lia.
    rewrite (Hg (b :: a :: before r p) (a :: b :: before r p)) by constructor.
    rewrite (qn_S (S (length (before r p)))). ring.
Qed.

Lemma remove_not_in p l : ~ In p l -> remove Nat.eq_dec p l = l.
Proof. intros H. apply notin_remove. exact H. Qed.
Lemma remove_length_in p l : NoDup l -> In p l -> S (length (remove Nat.eq_dec p l)) = length l.
Proof.
  induction l as [|a t IH]; intros Hnd Hin; [destruct Hin|]. inversion Hnd as [|? ? Ha Hnd']; subst. cbn [remove].
  destruct (Nat.eq_dec p a) as [->|Hne].
  - rewrite remove_not_in by exact Ha. reflexivity.
  - destruct Hin as [->|Hin]; [contradiction|]. cbn [length]. rewrite IH by assumption. reflexivity.
Qed.

(* the counting lemma: the set before p is S exactly |S|! (|l|-1-|S|)! times *)
Theorem before_count : forall (l : list nat) (p : nat) (g : list nat -> Q), inv g -> NoDup l -> In p l ->
  sumQ (fun pi => g (before pi p)) (perms l)
  == sumQ (fun sb => qf (length sb) * qf (length l - 1 - length sb) * g sb) (sublists (remove Nat.eq_dec p l)).
Proof.
  induction l as [|a t IH]; intros p g Hg Hnd Hin; [destruct Hin|]. inversion Hnd as [|? ? Ha Hnd']; subst.
  cbn [perms]. rewrite sumQ_flat_map. destruct (Nat.eq_dec a p) as [->|Hap].
  - (* the head is p itself *)
    rewrite (sumQ_ext _ (fun pi => sumQ (fun k => g (firstn k pi)) (seq 0 (S (length t))))).
    2:{ intros pi Hpi. rewrite <- (perms_length t pi Hpi). apply insert_self.
        intros Hc. apply Ha. clear -Hc Hpi. revert pi Hpi Hc. induction t as [|b t IHt]; intros pi Hpi Hc; cbn [perms] in Hpi.
        - destruct Hpi as [<-|[]]. destruct Hc.
        - apply in_flat_map in Hpi as [y [Hy Hpi]].
          assert (Hx : forall a0 (y0 x : list nat) q, In x (ins_all a0 y0) -> In q x -> q = a0 \/ In q y0).
          { clear. intros a0. induction y0 as [|c y0 IHy]; intros x q Hx Hq; cbn [ins_all] in Hx.
            - destruct Hx as [<-|[]]. destruct Hq as [<-|[]]. left. reflexivity.
            - destruct Hx as [<-|Hx]; [destruct Hq as [<-|Hq]; [left; reflexivity|right; exact Hq]|].
              apply in_map_iff in Hx as [z [<- Hz]]. destruct Hq as [<-|Hq]; [right; left; reflexivity|].
              destruct (IHy z q Hz Hq) as [->|H]; [left; reflexivity|right; right; exact H]. }
          destruct (Hx b y pi p Hpi Hc) as [->|H]; [left; reflexivity|right; apply (IHt y Hy H)]. }
    rewrite prefix_count by exact Hg. cbn [remove]. destruct (Nat.eq_dec p p) as [_|Hc]; [|contradiction].
    rewrite remove_not_in by exact Ha. cbn [length]. apply sumQ_ext. intros sb _.
    replace (S (length t) - 1 - length sb)%nat with (length t - length sb)%nat by lia. reflexivity.
  - destruct Hin as [E|Hin]; [contradiction|].
    rewrite (sumQ_ext _ (fun pi => qn (S (length (before pi p))) * g (a :: before pi p)
                                   + qn (length t - length (before pi p)) * g (before pi p))).
    2:{ intros pi Hpi. rewrite <- (perms_length t pi Hpi). apply insert_other; [exact Hap|exact Hg|].
        (* p occurs in every permutation of t *)
        clear -Hin Hpi. revert pi Hpi. induction t as [|b t IHt]; intros pi Hpi; [destruct Hin|]. cbn [perms] in Hpi.
        apply in_flat_map in Hpi as [y [Hy Hpi]].
        assert (Hx : forall a0 (y0 x : list nat) q, In x (ins_all a0 y0) -> (q = a0 \/ In q y0) -> In q x).
        { clear. intros a0. induction y0 as [|c y0 IHy]; intros x q Hx Hq; cbn [ins_all] in Hx.
          - destruct Hx as [<-|[]]. destruct Hq as [->|[]]. left. reflexivity.
          - destruct Hx as [<-|Hx]; [destruct Hq as [->|Hq]; [left; reflexivity|right; exact Hq]|].
            apply in_map_iff in Hx as [z [<- Hz]]. destruct Hq as [->|[->|Hq]];
              [right; apply (IHy z a0 Hz); left; reflexivity|left; reflexivity|right; apply (IHy z q Hz); right; exact Hq]. }
        apply (Hx b y pi p Hpi). destruct Hin as [->|Hin]; [left; reflexivity|right; apply (IHt Hin y Hy)]. }
    rewrite sumQ_plus.
    rewrite (IH p (fun L => qn (S (length L)) * g (a :: L))); [| |exact Hnd'|exact Hin].
    2:{ intros l1 l2 Hp. rewrite (Permutation_length Hp), (Hg (a :: l1) (a :: l2)) by (constructor; exact Hp). reflexivity. }
    rewrite (IH p (fun L => qn (length t - length L) * g L)); [| |exact Hnd'|exact Hin].
    2:{ intros l1 l2 Hp. rewrite (Permutation_length Hp), (Hg l1 l2 Hp). reflexivity. }
    cbn [remove]. destruct (Nat.eq_dec p a) as [E|_]; [symmetry in E; contradiction|].
    cbn [sublists length]. rewrite sumQ_app, sumQ_map. rewrite Qplus_comm.
    pose proof (remove_length_in p t Hnd' Hin) as Hrl.
    apply Qplus_comp.
    + apply sumQ_ext. intros sb Hsb. pose proof (sublists_length_le _ sb Hsb) as Hle.
      replace (S (length t) - 1 - length sb)%nat with (S (length t - 1 - length sb)) by lia.
      rewrite (qf_S (length t - 1 - length sb)). replace (S (length t - 1 - length sb)) with (length t - length sb)%nat by lia. ring.
    + apply sumQ_ext. intros sb Hsb. pose proof (sublists_length_le _ sb Hsb) as Hle. cbn [length].
      replace (S (length t) - 1 - S (length sb))%nat with (length t - 1 - length sb)%nat by lia.
      rewrite (qf_S (length sb)). ring.
Qed.

(* ---------- number of permutations ---------- *)
Lemma perms_count : forall l, length (perms l) = fact (length l).
Proof.
  induction l as [|a t IH]; [reflexivity|]. cbn [perms length fact].
  rewrite (length_flat_map_blocks (ins_all a) (S (length t))).
  - rewrite IH. lia.
  - intros x Hx. rewrite ins_all_count, (perms_length t x Hx). reflexivity.
Qed.

(* ---------- masks of player lists ---------- *)
Lemma fold_setbit_length : forall l q, length (fold_left (fun m j => setbit j m) l q) = length q.
Proof. induction l as [|a l IH]; intros q; cbn [fold_left]; [reflexivity|]. rewrite IH. apply setbit_length. Qed.
Lemma mask_of_length n l : length (mask_of n l) = n.
Proof. unfold mask_of. rewrite fold_setbit_length. unfold allfalse. apply repeat_length. Qed.
Lemma mask_of_spec n l i : (i < n)%nat -> nth i (mask_of n l) false = existsb (Nat.eqb i) l.
Proof.
  intros Hi. unfold mask_of. rewrite mask_of_nth by (unfold allfalse; rewrite repeat_length; exact Hi).
  rewrite nth_allfalse. apply orb_false_r.
Qed.
Lemma existsb_perm (f : nat -> bool) l l' : Permutation l l' -> existsb f l = existsb f l'.
Proof.
  induction 1 as [|x l l' _ IH|x y l|l1 l2 l3 _ IH1 _ IH2]; cbn [existsb].
  - reflexivity.
  - rewrite IH. reflexivity.
  - destruct (f x), (f y); reflexivity.
  - rewrite IH1. exact IH2.
Qed.
Lemma mask_of_perm n l l' : Permutation l l' -> mask_of n l = mask_of n l'.
Proof.
  intros H. apply (nth_ext _ _ false false); [rewrite !mask_of_length; reflexivity|].
  intros i Hi. rewrite mask_of_length in Hi. rewrite !mask_of_spec by exact Hi. apply existsb_perm. exact H.
Qed.

Lemma mask_shift_false k sb : mask_of (S k) (map S sb) = false :: mask_of k sb.
Proof.
  apply (nth_ext _ _ false false); [cbn [length]; rewrite !mask_of_length; reflexivity|].
  intros i Hi. rewrite mask_of_length in Hi. rewrite mask_of_spec by exact Hi. destruct i as [|i]; cbn [nth].
  - induction sb as [|x sb IH]; [reflexivity|]. cbn [map existsb]. exact IH.
  - rewrite mask_of_spec by lia. induction sb as [|x sb IH]; [reflexivity|]. cbn [map existsb]. rewrite IH. reflexivity.
Qed.
Lemma mask_shift_true k sb : mask_of (S k) (0%nat :: map S sb) = true :: mask_of k sb.
Proof.
  apply (nth_ext _ _ false false); [cbn [length]; rewrite !mask_of_length; reflexivity|].
  intros i Hi. rewrite mask_of_length in Hi. rewrite mask_of_spec by exact Hi. destruct i as [|i]; cbn [nth existsb]; [reflexivity|].
  rewrite mask_of_spec by lia. cbn [Nat.eqb orb]. induction sb as [|x sb IH]; [reflexivity|]. cbn [map existsb]. rewrite IH. reflexivity.
Qed.

Lemma sublists_map (f : nat -> nat) : forall l, sublists (map f l) = map (map f) (sublists l).
Proof.
  induction l as [|a t IH]; [reflexivity|]. cbn [map sublists]. rewrite IH, map_app, !map_map. reflexivity.
Qed.

(* the coalitions of `masks n` are exactly the masks of the sub-lists of the players, in the same order *)
Theorem masks_sublists : forall n, map (mask_of n) (sublists (seq 0 n)) = masks n.
Proof.
  induction n as [|k IH]; [reflexivity|].
  rewrite <- cons_seq, <- seq_shift. cbn [sublists masks]. rewrite sublists_map, map_app, !map_map.
  rewrite (map_ext (fun x => mask_of (S k) (map S x)) (fun x => false :: mask_of k x)) by (intros; apply mask_shift_false).
  rewrite (map_ext (fun x => mask_of (S k) (0%nat :: map S x)) (fun x => true :: mask_of k x)) by (intros; apply mask_shift_true).
  rewrite <- IH, !map_map. reflexivity.
Qed.

Lemma sublists_sub : forall l sb, In sb (sublists l) -> (forall x, In x sb -> In x l) /\ (NoDup l -> NoDup sb).
Proof.
  induction l as [|a t IH]; intros sb H; cbn [sublists] in H.
  - destruct H as [<-|[]]. split; [intros x []|intros _; constructor].
  - apply in_app_or in H as [H|H].
    + destruct (IH sb H) as [H1 H2]. split; [intros x Hx; right; apply H1; exact Hx|intros Hnd; inversion Hnd; auto].
    + apply in_map_iff in H as [sb' [<- H]]. destruct (IH sb' H) as [H1 H2]. split.
      * intros x [<-|Hx]; [left; reflexivity|right; apply H1; exact Hx].
      * intros Hnd. inversion Hnd as [|? ? Ha Hnd']; subst. constructor; [intros Hc; apply Ha; apply H1; exact Hc|apply H2; exact Hnd'].
Qed.

Lemma cnt_mask_of n : forall sb, NoDup sb -> (forall x, In x sb -> (x < n)%nat) -> cnt (mask_of n sb) = length sb.
Proof.
  induction sb as [|a sb IH] using rev_ind; intros Hnd Hlt; [unfold mask_of; cbn [fold_left]; apply cnt_allfalse|].
  rewrite mask_of_app, app_length. cbn [length].
  assert (Hnd' : NoDup sb /\ ~ In a sb).
  { apply NoDup_remove with (l' := []) in Hnd. rewrite app_nil_r in Hnd. exact Hnd. }
  destruct Hnd' as [Hnd' Ha].
  rewrite setbit_cnt.
  - rewrite IH; [lia|exact Hnd'|intros x Hx; apply Hlt; apply in_or_app; left; exact Hx].
  - rewrite mask_of_length. apply Hlt. apply in_or_app. right. left. reflexivity.
  - rewrite mask_of_spec by (apply Hlt; apply in_or_app; right; left; reflexivity).
    destruct (existsb (Nat.eqb a) sb) eqn:E; [|reflexivity]. apply existsb_exists in E as [y [Hy Ey]]. apply Nat.eqb_eq in Ey. subst. contradiction.
Qed.

(* summing over the sub-lists that avoid p = summing over the sub-lists of the list without p *)
Lemma sublists_remove p : forall l (F : list nat -> Q), NoDup l ->
  sumQ (fun sb => if existsb (Nat.eqb p) sb then 0 else F sb) (sublists l) == sumQ F (sublists (remove Nat.eq_dec p l)).
Proof.
  induction l as [|a t IH]; intros F Hnd; [cbn; reflexivity|]. inversion Hnd as [|? ? Ha Hnd']; subst.
  cbn [sublists remove]. rewrite sumQ_app, sumQ_map. destruct (Nat.eq_dec p a) as [->|Hne].
  - rewrite (sumQ_ext (fun x => if existsb (Nat.eqb a) (a :: x) then 0 else F (a :: x)) (fun _ => 0))
      by (intros x _; cbn [existsb]; rewrite Nat.eqb_refl; reflexivity).
    rewrite sumQ_zero, IH by exact Hnd'. ring.
  - cbn [sublists]. rewrite sumQ_app, sumQ_map. rewrite (IH F) by exact Hnd'. apply Qplus_comp; [reflexivity|].
    rewrite <- (IH (fun sb => F (a :: sb))) by exact Hnd'. apply sumQ_ext. intros x _. cbn [existsb].
    destruct (Nat.eqb_spec p a); [contradiction|reflexivity].
Qed.

(* ---------- the Shapley value as a sum over sub-lists of the other players ---------- *)
Theorem shapley_sublists n v p : (p < n)%nat ->
  shapley n v p == sumQ (fun sb => w n (length sb) * (v (mask_of n (sb ++ [p])) - v (mask_of n sb)))
                        (sublists (remove Nat.eq_dec p (seq 0 n))).
Proof.
  intros Hp. unfold shapley. rewrite <- masks_sublists, sumQ_map.
  rewrite <- (sublists_remove p (seq 0 n)) by apply seq_NoDup.
  apply sumQ_ext. intros sb Hsb. destruct (sublists_sub _ sb Hsb) as [Hin Hnd]. specialize (Hnd (seq_NoDup n 0)).
  rewrite mask_of_spec by exact Hp. destruct (existsb (Nat.eqb p) sb); [reflexivity|].
  rewrite cnt_mask_of; [|exact Hnd|intros x Hx; apply Hin in Hx; apply in_seq in Hx; lia].
  rewrite mask_of_app. reflexivity.
Qed.

Lemma ins_all_perm a : forall l x, In x (ins_all a l) -> Permutation x (a :: l).
Proof.
  induction l as [|b t IH]; intros x H; cbn [ins_all] in H.
  - destruct H as [<-|[]]. apply Permutation_refl.
  - destruct H as [<-|H]; [apply Permutation_refl|]. apply in_map_iff in H as [y [<- Hy]].
    apply (Permutation_trans (perm_skip b (IH y Hy))). apply perm_swap.
Qed.
Lemma perms_perm : forall l x, In x (perms l) -> Permutation x l.
Proof.
  induction l as [|a t IH]; intros x H; cbn [perms] in H; [destruct H as [<-|[]]; apply Permutation_refl|].
  apply in_flat_map in H as [y [Hy H]]. apply (Permutation_trans (ins_all_perm a y x H)). apply perm_skip. apply IH. exact Hy.
Qed.

Lemma sumQ_concat_repeat' {A} (f : A -> Q) l k : sumQ f (concat (repeat l k)) == qn k * sumQ f l.
Proof.
  induction k as [|k IH]; cbn [repeat concat].
  - rewrite sumQ_nil. unfold qn. cbn. ring.
  - rewrite sumQ_app, IH, qn_S. ring.
Qed.
Lemma length_concat_repeat' {A} (l : list A) k : length (concat (repeat l k)) = (k * length l)%nat.
Proof. induction k as [|k IH]; cbn [repeat concat]; [reflexivity|]. rewrite app_length, IH. lia. Qed.

(* C04, last clause: every permutation sampled equally often (c copies of all n! permutations), truncation and timeout
   disabled, the empty coalition worth the null score: the estimator IS the Shapley value *)
Theorem mc_exact_when_uniform P n v clock c p sample :
  mc_steps P = 0%nat -> Qle_bool (mc_timeout P) 0 = true -> (0 < c)%nat -> (p < n)%nat -> v (allfalse n) == mc_null P ->
  Permutation sample (concat (repeat (perms (seq 0 n)) c)) ->          (* in whatever order they were drawn *)
  exists scores, montecarlo P n v clock sample = Some scores /\ nth p scores 0 == shapley n v p.
Proof.
  intros H0 Ht Hc Hp Hnull Hsample.
  set (full := concat (repeat (perms (seq 0 n)) c)) in *.
  assert (Hfact : (0 < length (perms (seq 0 n)))%nat) by (rewrite perms_count; apply lt_O_fact).
  assert (Hne : sample <> []).
  { intros E. apply Permutation_length in Hsample. rewrite E in Hsample. unfold full in Hsample. rewrite length_concat_repeat' in Hsample. cbn in Hsample. nia. }
  assert (Hall : forall pi, In pi sample -> Permutation pi (seq 0 n)).
  { intros pi Hpi. apply (Permutation_in _ Hsample) in Hpi. unfold full in Hpi. apply in_concat in Hpi as [blk [Hb Hpi]]. apply repeat_spec in Hb. subst blk.
    apply perms_perm. exact Hpi. }
  destruct (mc_is_marginal_average P n v clock sample p H0 Ht Hne Hall Hp) as [scores [E S]].
  exists scores. split; [exact E|]. rewrite S. rewrite (sumQ_perm _ _ _ Hsample), (Permutation_length Hsample). unfold full.
  rewrite sumQ_concat_repeat', length_concat_repeat', qn_mult, perms_count, seq_length.
  set (h := fun L => v (mask_of n (L ++ [p])) - v (mask_of n L)).
  assert (Hh : inv h).
  { intros l l' Hl. unfold h. rewrite (mask_of_perm n (l ++ [p]) (l' ++ [p])) by (apply Permutation_app_tail; exact Hl).
    rewrite (mask_of_perm n l l' Hl). reflexivity. }
  rewrite (sumQ_ext _ (fun pi => h (before pi p))).
  2:{ intros pi _. unfold marginal, h. destruct (before pi p) eqn:Eb; [|reflexivity].
      cbn [app]. change (mask_of n []) with (allfalse n). rewrite Hnull. reflexivity. }
  rewrite (before_count (seq 0 n) p h Hh (seq_NoDup n 0)) by (apply in_seq; lia).
  rewrite shapley_sublists by exact Hp. rewrite seq_length.
  assert (Hqc : 0 < qn c) by (apply qn_pos; exact Hc). pose proof (qf_pos n) as Hqf. fold (qf n).
  rewrite (sumQ_ext (fun sb => w n (length sb) * (v (mask_of n (sb ++ [p])) - v (mask_of n sb)))
                    (fun sb => (1 / qf n) * (qf (length sb) * qf (n - 1 - length sb) * h sb))).
  2:{ intros sb _. unfold w, h. replace (n - length sb - 1)%nat with (n - 1 - length sb)%nat by lia. field. lra. }
  rewrite sumQ_scale. field. split; lra.
Qed.
