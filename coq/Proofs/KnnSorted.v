(* C02: with pairwise distinct distances the rank-based K-nearest set of Spec/Knn.v is the set of the first K rows in
   sorted order, and the two definitions of the KNN game (knn_point, knn_point_sorted) coincide. *)
From Coq Require Import List Arith ZArith QArith Lia Bool Setoid Permutation Lqa.
From DS Require Import Util.SumQ Util.ListX Model.ADD Spec.Count Spec.Knn Proofs.ADDProofs Proofs.KnnShapley.
Import ListNotations.
Local Open Scope Q_scope.

Fixpoint ssorted (d : nat -> Q) (l : list nat) : Prop :=
  match l with [] => True | a :: t => (forall b, In b t -> d a < d b) /\ ssorted d t end.

Lemma insert_by_spec d r : forall l, ssorted d l -> (forall b, In b l -> ~ d r == d b) ->
  ssorted d (insert_by d r l) /\ Permutation (r :: l) (insert_by d r l).
Proof.
  induction l as [|h t IH]; intros S Hne; [cbn; split; [split; [intros b []|exact I]|apply Permutation_refl]|].
  cbn [insert_by]. cbn [ssorted] in S. destruct S as [S1 S2].
  assert (Hq : Qeq_bool (d r) (d h) = false).
  { destruct (Qeq_bool (d r) (d h)) eqn:E; [|reflexivity]. apply Qeq_bool_iff in E. exfalso. apply (Hne h (or_introl eq_refl) E). }
  rewrite Hq. cbn [andb negb]. rewrite andb_true_r. destruct (Qle_bool (d r) (d h)) eqn:E.
  - apply Qle_bool_iff in E. assert (Hlt : d r < d h).
    { apply Qle_lteq in E. destruct E as [E|E]; [exact E|]. exfalso. apply (Hne h (or_introl eq_refl) E). }
    split; [|apply Permutation_refl]. cbn [ssorted]. split; [|split; assumption].
    intros b [<-|Hb]; [exact Hlt|]. eapply Qlt_trans; [exact Hlt|apply S1; exact Hb].
  - assert (Hlt : d h < d r).
    { apply Qnot_le_lt. intros H. apply Qle_bool_iff in H. congruence. }
    destruct (IH S2 (fun b Hb => Hne b (or_intror Hb))) as [IS IP]. split.
    + cbn [ssorted]. split; [|exact IS]. intros b Hb. apply (Permutation_in _ (Permutation_sym IP)) in Hb.
      destruct Hb as [<-|Hb]; [exact Hlt|apply S1; exact Hb].
    + eapply Permutation_trans; [apply perm_swap|]. apply perm_skip. exact IP.
Qed.

Lemma sort_rows_spec d : forall P, NoDup P -> (forall r r', In r P -> In r' P -> d r == d r' -> r = r') ->
  ssorted d (sort_rows d P) /\ Permutation P (sort_rows d P).
Proof.
  induction P as [|r P IH]; intros Hnd Hinj; [cbn; split; [exact I|apply Permutation_refl]|].
  inversion Hnd as [|? ? Hr Hnd']; subst. cbn [sort_rows fold_right]. fold (sort_rows d P).
  destruct (IH Hnd' (fun a b Ha Hb => Hinj a b (or_intror Ha) (or_intror Hb))) as [IS IP].
  destruct (insert_by_spec d r (sort_rows d P) IS) as [S' P'].
  - intros b Hb E. apply (Permutation_in _ (Permutation_sym IP)) in Hb.
    assert (r = b) by (apply Hinj; [left; reflexivity|right; exact Hb|exact E]). subst. contradiction.
  - split; [exact S'|]. eapply Permutation_trans; [apply perm_skip; exact IP|exact P'].
Qed.

(* in a strictly sorted list the rows of rank <= K are the first K *)
Lemma nle_cons d a l t : nle d (a :: l) t = ((if Qle_bool (d a) (d t) then 1 else 0) + nle d l t)%nat.
Proof. unfold nle. cbn [filter]. destruct (Qle_bool (d a) (d t)); reflexivity. Qed.
Lemma nle_head_zero d a l : (forall b, In b l -> d a < d b) -> nle d l a = 0%nat.
Proof.
  intros H. unfold nle. induction l as [|b l IH]; [reflexivity|]. cbn [filter].
  destruct (Qle_bool (d b) (d a)) eqn:E; [|apply IH; intros c Hc; apply H; right; exact Hc].
  apply Qle_bool_iff in E. exfalso. apply (Qlt_not_le _ _ (H b (or_introl eq_refl)) E).
Qed.
Lemma filter_none {A} (f : A -> bool) : forall l, (forall x, In x l -> f x = false) -> filter f l = [].
Proof. induction l as [|x l IH]; intros H; [reflexivity|]. cbn [filter]. rewrite (H x (or_introl eq_refl)). apply IH. intros y Hy. apply H. right. exact Hy. Qed.
Lemma sorted_prefix d : forall l K, ssorted d l -> filter (fun r => Nat.leb (nle d l r) K) l = firstn K l.
Proof.
  induction l as [|a l IH]; intros K S; [destruct K; reflexivity|]. cbn [ssorted] in S. destruct S as [S1 S2]. cbn [filter].
  assert (Ea : nle d (a :: l) a = 1%nat).
  { rewrite nle_cons, (nle_head_zero d a l S1). replace (Qle_bool (d a) (d a)) with true; [reflexivity|]. symmetry. apply Qle_bool_iff, Qle_refl. }
  assert (Er : forall r, In r l -> nle d (a :: l) r = S (nle d l r)).
  { intros r Hr. rewrite nle_cons. replace (Qle_bool (d a) (d r)) with true; [reflexivity|]. symmetry. apply Qle_bool_iff, Qlt_le_weak, S1, Hr. }
  rewrite Ea. destruct K as [|K]; cbn [Nat.leb firstn].
  - apply filter_none. intros r Hr. rewrite (Er r Hr). reflexivity.
  - f_equal. rewrite <- (IH K S2). apply filter_ext_in. intros r Hr. rewrite (Er r Hr). reflexivity.
Qed.

Lemma nle_perm d l l' t : Permutation l l' -> nle d l t = nle d l' t.
Proof.
  intros P. unfold nle. induction P as [|x l l' P IH|x y l|l l' l'' P1 IH1 P2 IH2]; cbn [filter]; try congruence.
  - destruct (Qle_bool (d x) (d t)); cbn [length]; congruence.
  - destruct (Qle_bool (d x) (d t)), (Qle_bool (d y) (d t)); reflexivity.
Qed.
Lemma filter_perm {A} (f : A -> bool) l l' : Permutation l l' -> Permutation (filter f l) (filter f l').
Proof.
  intros P. induction P as [|x l l' P IH|x y l|l l' l'' P1 IH1 P2 IH2]; cbn [filter].
  - apply Permutation_refl.
  - destruct (f x); [apply perm_skip|]; exact IH.
  - destruct (f x), (f y); try apply Permutation_refl. apply perm_swap.
  - eapply Permutation_trans; eassumption.
Qed.

(* the K nearest rows by rank are the first K rows in sorted order *)
Theorem nearest_is_sorted_prefix K d P : NoDup P -> (forall r r', In r P -> In r' P -> d r == d r' -> r = r') ->
  Permutation (nearest K d P) (firstn K (sort_rows d P)).
Proof.
  intros Hnd Hinj. destruct (sort_rows_spec d P Hnd Hinj) as [S Pm]. rewrite <- (sorted_prefix d (sort_rows d P) K S).
  unfold nearest. eapply Permutation_trans; [apply filter_perm; exact Pm|].
  rewrite (filter_ext (fun r => Nat.leb (nle d P r) K) (fun r => Nat.leb (nle d (sort_rows d P) r) K)); [apply Permutation_refl|].
  intros r. rewrite (nle_perm d P (sort_rows d P) r Pm). reflexivity.
Qed.

Local Close Scope Q_scope.
Lemma vsum_perm c : forall (l l' : list (list nat)), Permutation l l' -> vsum c l = vsum c l'.
Proof.
  intros l l' P. unfold vsum. induction P as [|x l l' P IH|x y l|l l' l'' P1 IH1 P2 IH2]; cbn [fold_right]; try congruence.
  rewrite <- !vadd_assoc, (vadd_comm y x). reflexivity.
Qed.
Local Open Scope Q_scope.

(* the two definitions of the KNN game coincide (pairwise distinct distances) *)
Theorem knn_point_sorted_eq K C rows labels dist ucol null m :
  (forall r r', (r < length rows)%nat -> (r' < length rows)%nat -> nth r dist 0 == nth r' dist 0 -> r = r') ->
  knn_point_sorted K C rows labels dist ucol null m = knn_point K C rows labels dist ucol null m.
Proof.
  intros Hd. unfold knn_point_sorted, knn_point. destruct (Nat.ltb (length (present_rows rows m)) K); [reflexivity|].
  f_equal. f_equal. apply vsum_perm. apply Permutation_map. apply Permutation_sym. apply nearest_is_sorted_prefix.
  - apply NoDup_filter, seq_NoDup.
  - intros r r' Hr Hr'. apply Hd; [apply filter_In in Hr|apply filter_In in Hr']; destruct Hr as [Hr _] || destruct Hr' as [Hr' _]; apply in_seq in Hr || apply in_seq in Hr'; lia.
Qed.

Theorem v_knn_sorted_eq K C rows labels dists ucols nulls m :
  (forall d, In d dists -> length d = length rows /\ NoDup (map Qred d)) ->
  v_knn_sorted K C rows labels dists ucols nulls m == v_knn K C rows labels dists ucols nulls m.
Proof.
  intros Hd. unfold v_knn_sorted, v_knn. apply Qmult_comp; [|reflexivity]. apply sumQ_ext. intros [[d u] nl] Ht. cbn [fst snd].
  apply in_combine_l in Ht. apply in_combine_l in Ht. destruct (Hd d Ht) as [HL Hnd].
  rewrite knn_point_sorted_eq; [reflexivity|]. apply distinct_of_nodup; assumption.
Qed.
