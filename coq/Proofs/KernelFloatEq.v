(* C13: the two binary64 kernel models coincide on all arguments (Leibniz equality of float lists). *)
From Coq Require Import PrimFloat Uint63 ZArith List Arith Lia.
From DS Require Import Model.KernelFloat.
Import ListNotations.

Lemma cy_idxs_append a j i : (i <= k_units a)%nat -> length (nthl (k_orders a) j) = k_units a ->
  cy_idxs a i j = nth i (nthl (k_orders a) j ++ [k_units a]) O.
Proof.
  intros Hi Hlen. unfold cy_idxs. destruct (Nat.ltb_spec i (k_units a)) as [Hlt|Hge].
  - rewrite app_nth1 by lia. reflexivity.
  - assert (i = k_units a) by lia. subst i. rewrite app_nth2 by lia. rewrite Hlen, Nat.sub_diag. reflexivity.
Qed.

Lemma inner_eq a labels utils j : length (nthl (k_orders a) j) = k_units a ->
  forall steps i current out, (steps = O \/ (steps = S i /\ (i < k_units a)%nat)) ->
  cy_inner a labels utils j steps i current out
  = ref_inner labels utils j (nthl (k_orders a) j ++ [k_units a]) steps i current out.
Proof.
  intros Hlen. induction steps as [|s IH]; intros i current out Hs; [reflexivity|].
  destruct Hs as [Hs|[Hs Hi]]; [discriminate|]. injection Hs as ->.
  cbn [cy_inner ref_inner]. rewrite !cy_idxs_append by (auto; lia).
  apply IH. destruct i as [|i']; [left; reflexivity|right; cbn [Nat.pred]; split; [reflexivity|lia]].
Qed.

Lemma outer_eq a labels utils : (forall j, (j < k_test a)%nat -> length (nthl (k_orders a) j) = k_units a) ->
  forall js out, (forall j, In j js -> (j < k_test a)%nat) ->
  cy_outer a labels utils js out = ref_outer a labels utils js out.
Proof.
  intros Hlen. induction js as [|j t IH]; intros out Hjs; [reflexivity|]. cbn [cy_outer ref_outer].
  rewrite IH by (intros k Hk; apply Hjs; right; exact Hk). f_equal.
  apply inner_eq; [apply Hlen; apply Hjs; left; reflexivity|].
  destruct (k_units a) as [|n]; [left; reflexivity|right; cbn [Nat.pred]; split; [reflexivity|lia]].
Qed.

(* every argument list whose argsort rows have one entry per unit (what np.argsort returns) *)
Theorem kernels_equal (a : kargs) :
  (forall j, (j < k_test a)%nat -> length (nthl (k_orders a) j) = k_units a) ->
  kernel_cy_f a = kernel_ref_f a.
Proof.
  intros Hlen. unfold kernel_cy_f, kernel_ref_f, ref_labels, ref_utils.
  rewrite (outer_eq a _ _ Hlen); [reflexivity|]. intros j Hj. apply in_seq in Hj. lia.
Qed.
