(* C11: the operators preserve logic; encode/read-back is the identity on well-formed formulas. *)
From Coq Require Import List Arith Bool Lia.
From DS Require Import Spec.Dnf Model.Provenance Model.Expr Proofs.QueryCorrect.
Import ListNotations.

Lemma eval_conj_app x c d : eval_conj x (c ++ d) = eval_conj x c && eval_conj x d.
Proof. unfold eval_conj. apply forallb_app. Qed.
Lemma eval_dnf_app x f g : eval_dnf x (f ++ g) = eval_dnf x f || eval_dnf x g.
Proof. unfold eval_dnf. apply existsb_app. Qed.

Lemma eval_dnf_map_pre x c f : eval_dnf x (map (fun d => c ++ d) f) = eval_conj x c && eval_dnf x f.
Proof.
  unfold eval_dnf. induction f as [|d f IH]; cbn [map existsb]; [rewrite andb_false_r; reflexivity|].
  rewrite IH, eval_conj_app. destruct (eval_conj x c); reflexivity.
Qed.
Lemma eval_dnf_map_post x d f : eval_dnf x (map (fun c => c ++ d) f) = eval_dnf x f && eval_conj x d.
Proof.
  unfold eval_dnf. induction f as [|c f IH]; cbn [map existsb]; [reflexivity|].
  rewrite IH, eval_conj_app. destruct (eval_conj x c), (eval_conj x d), (existsb (eval_conj x) f); reflexivity.
Qed.
Lemma eval_conj_single x l : eval_conj x [l] = eval_lit x l.
Proof. unfold eval_conj. cbn [forallb]. apply andb_true_r. Qed.

Lemma eval_dnf_cons x c f : eval_dnf x (c :: f) = eval_conj x c || eval_dnf x f.
Proof. reflexivity. Qed.

Lemma eval_dnf_product x f g :
  eval_dnf x (flat_map (fun c => map (fun d => c ++ d) g) f) = eval_dnf x f && eval_dnf x g.
Proof.
  induction f as [|c f IH]; cbn [flat_map]; [reflexivity|].
  rewrite eval_dnf_app, IH, eval_dnf_map_pre, eval_dnf_cons.
  destruct (eval_conj x c), (eval_dnf x g), (eval_dnf x f); reflexivity.
Qed.

Theorem and_e_correct x a b : eval_expr x (and_e a b) = eval_expr x a && eval_expr x b.
Proof.
  destruct a as [l|c|f], b as [m|d|g]; cbn [and_e eval_expr].
  - change [l; m] with ([l] ++ [m]). rewrite eval_conj_app, !eval_conj_single. reflexivity.
  - change (l :: d) with ([l] ++ d). rewrite eval_conj_app, eval_conj_single. reflexivity.
  - change (map (fun c => l :: c) g) with (map (fun d => [l] ++ d) g).
    rewrite eval_dnf_map_pre, eval_conj_single. reflexivity.
  - rewrite eval_conj_app, eval_conj_single. reflexivity.
  - apply eval_conj_app.
  - apply eval_dnf_map_pre.
  - rewrite eval_dnf_map_post, eval_conj_single. reflexivity.
  - apply eval_dnf_map_post.
  - apply eval_dnf_product.
Qed.

Theorem or_e_correct x a b : eval_expr x (or_e a b) = eval_expr x a || eval_expr x b.
Proof.
  destruct a as [l|c|f], b as [m|d|g]; cbn [or_e eval_expr];
    rewrite ?eval_dnf_app, ?eval_dnf_cons, ?eval_conj_single; unfold eval_dnf; cbn [existsb];
    rewrite ?orb_false_r; reflexivity.
Qed.

Theorem build_correct x t : eval_expr x (build t) = eval_tree x t.
Proof.
  induction t as [l|a IHa b IHb|a IHa b IHb]; cbn [build eval_tree]; [reflexivity| |].
  - rewrite and_e_correct, IHa, IHb. reflexivity.
  - rewrite or_e_correct, IHa, IHb. reflexivity.
Qed.

(* well-formedness (what the Python constructors accept) is preserved by the operators *)
Lemma map_nonnil {A B} (g : A -> B) l : l <> [] -> map g l <> [].
Proof. destruct l; [contradiction|discriminate]. Qed.

Theorem and_e_wf a b : wf_expr a -> wf_expr b -> wf_expr (and_e a b).
Proof.
  destruct a as [l|c|f], b as [m|d|g]; cbn [and_e wf_expr]; intros Ha Hb; try discriminate.
  - destruct Hb as [Hg Hn]. split; [apply map_nonnil; exact Hg|]. intros c Hc. apply in_map_iff in Hc as [d [<- _]]. discriminate.
  - destruct c; [contradiction|discriminate].
  - destruct c; [contradiction|discriminate].
  - destruct Hb as [Hg Hn]. split; [apply map_nonnil; exact Hg|]. intros e He. apply in_map_iff in He as [d [<- _]].
    destruct c; [contradiction|discriminate].
  - destruct Ha as [Hf Hn]. split; [apply map_nonnil; exact Hf|]. intros e He. apply in_map_iff in He as [d [<- _]].
    destruct d; discriminate.
  - destruct Ha as [Hf Hn]. split; [apply map_nonnil; exact Hf|]. intros e He. apply in_map_iff in He as [c [<- Hc]].
    specialize (Hn c Hc). destruct c; [contradiction|discriminate].
  - destruct Ha as [Hf Hnf], Hb as [Hg Hng]. split.
    + destruct f as [|c f]; [contradiction|]. cbn [flat_map]. destruct g as [|d g]; [contradiction|]. discriminate.
    + intros e He. apply in_flat_map in He as [c [Hc He]]. apply in_map_iff in He as [d [<- Hd]].
      specialize (Hnf c Hc). destruct c; [contradiction|discriminate].
Qed.

Theorem or_e_wf a b : wf_expr a -> wf_expr b -> wf_expr (or_e a b).
Proof.
  destruct a as [l|c|f], b as [m|d|g]; cbn [or_e wf_expr]; intros Ha Hb.
  all: try (split; [discriminate|]; intros e He; cbn [In] in He;
            repeat (destruct He as [<-|He]; [try discriminate; try assumption|]); try destruct He; fail).
  - destruct Hb as [Hg Hn]. split; [discriminate|]. intros e [<-|He]; [discriminate|apply Hn; exact He].
  - destruct Hb as [Hg Hn]. split; [discriminate|]. intros e [<-|He]; [exact Ha|apply Hn; exact He].
  - destruct Ha as [Hf Hn]. split; [destruct f; discriminate|]. intros e He. apply in_app_or in He as [He|[<-|[]]]; [apply Hn; exact He|discriminate].
  - destruct Ha as [Hf Hn]. split; [destruct f; discriminate|]. intros e He. apply in_app_or in He as [He|[<-|[]]]; [apply Hn; exact He|exact Hb].
  - destruct Ha as [Hf Hnf], Hb as [Hg Hng]. split; [destruct f; [contradiction|discriminate]|].
    intros e He. apply in_app_or in He as [He|He]; [apply Hnf|apply Hng]; exact He.
Qed.

Lemma wf_to_dnf e : wf_expr e -> conj_nonempty (to_dnf e).
Proof.
  destruct e as [l|c|f]; cbn [wf_expr to_dnf]; intros H.
  - intros c [<-|[]]. discriminate.
  - intros d [<-|[]]. exact H.
  - exact (proj2 H).
Qed.
Lemma eval_to_dnf x e : eval_dnf x (to_dnf e) = eval_expr x e.
Proof.
  destruct e as [l|c|f]; cbn [to_dnf eval_expr]; unfold eval_dnf; cbn [existsb]; rewrite ?orb_false_r; try reflexivity.
  unfold eval_conj. cbn [forallb]. apply andb_true_r.
Qed.

(* storing any list of formulas and reading row i back yields the i-th formula itself *)
Theorem getitem_encode (fs : list dnf) i f :
  nth_error fs i = Some f -> conj_nonempty f -> getitem (encode fs) i = f.
Proof.
  intros Hi Hne. unfold getitem, encode. cbn [prow].
  assert (E : nth i (map (pad_row (width_d fs) (width_c fs)) fs) [] = pad_row (width_d fs) (width_c fs) f).
  { apply nth_error_split in Hi as [l1 [l2 [-> <-]]]. rewrite map_app, app_nth2; rewrite map_length; [|lia].
    rewrite Nat.sub_diag. reflexivity. }
  rewrite E. apply decode_pad_row. exact Hne.
Qed.

Theorem roundtrip (es : list expr) i e x :
  nth_error es i = Some e -> wf_expr e ->
  eval_dnf x (getitem (encode (map to_dnf es)) i) = eval_expr x e.
Proof.
  intros Hi Hwf. rewrite (getitem_encode (map to_dnf es) i (to_dnf e)).
  - apply eval_to_dnf.
  - rewrite nth_error_map, Hi. reflexivity.
  - apply wf_to_dnf. exact Hwf.
Qed.
