(* Proofs about Provenance.query / encode / decode (C05, reused by C11, C12, C19). *)
From Coq Require Import List Arith ZArith Bool Lia Sorting.Sorted.
From DS Require Import Spec.Dnf Model.Provenance.
Import ListNotations.
Local Open Scope Z_scope.

(* ---------- generic list facts ---------- *)
Lemma existsb_filter {A} (f p : A -> bool) l :
  existsb f (filter p l) = existsb (fun a => p a && f a) l.
Proof. induction l as [|a l IH]; [reflexivity|]. cbn [filter existsb]. destruct (p a); cbn [existsb andb]; rewrite IH; reflexivity. Qed.

Lemma existsb_map {A B} (f : B -> bool) (g : A -> B) l : existsb f (map g l) = existsb (fun a => f (g a)) l.
Proof. induction l as [|a l IH]; [reflexivity|]. cbn [map existsb]. rewrite IH. reflexivity. Qed.

Lemma forallb_map {A B} (f : B -> bool) (g : A -> B) l : forallb f (map g l) = forallb (fun a => f (g a)) l.
Proof. induction l as [|a l IH]; [reflexivity|]. cbn [map forallb]. rewrite IH. reflexivity. Qed.

Lemma existsb_ext_in {A} (f g : A -> bool) l : (forall a, In a l -> f a = g a) -> existsb f l = existsb g l.
Proof. induction l as [|a l IH]; intros H; [reflexivity|]. cbn [existsb]. rewrite (H a (or_introl eq_refl)), IH; [reflexivity|]. intros b Hb; apply H; right; exact Hb. Qed.

Lemma forallb_ext_in {A} (f g : A -> bool) l : (forall a, In a l -> f a = g a) -> forallb f l = forallb g l.
Proof. induction l as [|a l IH]; intros H; [reflexivity|]. cbn [forallb]. rewrite (H a (or_introl eq_refl)), IH; [reflexivity|]. intros b Hb; apply H; right; exact Hb. Qed.

Lemma forallb_repeat {A} (f : A -> bool) a n : f a = true -> forallb f (repeat a n) = true.
Proof. intros H. induction n as [|n IH]; [reflexivity|]. cbn [repeat forallb]. rewrite H, IH. reflexivity. Qed.

Lemma existsb_repeat_false {A} (f : A -> bool) a n : f a = false -> existsb f (repeat a n) = false.
Proof. intros H. induction n as [|n IH]; [reflexivity|]. cbn [repeat existsb]. rewrite H, IH. reflexivity. Qed.

Lemma filter_repeat_false {A} (f : A -> bool) a n : f a = false -> filter f (repeat a n) = [].
Proof. intros H. induction n as [|n IH]; [reflexivity|]. cbn [repeat filter]. rewrite H. exact IH. Qed.

Lemma filter_all_true {A} (f : A -> bool) l : (forall a, In a l -> f a = true) -> filter f l = l.
Proof. induction l as [|a l IH]; intros H; [reflexivity|]. cbn [filter]. rewrite (H a (or_introl eq_refl)), IH; [reflexivity|]. intros b Hb; apply H; right; exact Hb. Qed.

(* ---------- numpy lookup on values ++ [-1] ---------- *)
Lemma zs_length x : length (zs x) = length x.
Proof. unfold zs. apply map_length. Qed.

Lemma npget_real (x : list nat) (u : nat) : (u < length x)%nat ->
  npget (zs x ++ [-1]) (Z.of_nat u) = Z.of_nat (nth u x 0%nat).
Proof.
  intros Hu. unfold npget. destruct (Z.ltb_spec (Z.of_nat u) 0) as [H|_]; [lia|].
  rewrite Nat2Z.id. rewrite app_nth1 by (rewrite zs_length; exact Hu).
  unfold zs. change 0 with (Z.of_nat 0). rewrite map_nth. reflexivity.
Qed.

Lemma npget_pad (vals : list Z) : npget (vals ++ [-1]) (-1) = -1.
Proof.
  unfold npget. cbn [Z.ltb Z.compare]. rewrite app_length. cbn [length].
  replace (Z.to_nat (Z.of_nat (length vals + 1) + -1)) with (length vals) by lia.
  rewrite app_nth2 by lia. rewrite Nat.sub_diag. reflexivity.
Qed.

(* ---------- clean cells ---------- *)
Definition clean_cell (n : nat) (c : cell) : Prop := c = padcell \/ exists l : lit, c = cell_of_lit l /\ (fst l < n)%nat.
Definition clean_conj (n : nat) (c : aconj) : Prop := forall x, In x c -> clean_cell n x.
Definition clean_row (n : nat) (r : arow) : Prop := forall c, In c r -> clean_conj n c.
Definition clean (n : nat) (p : prov) : Prop := forall r, In r (prow p) -> clean_row n r.

Lemma cell_of_lit_not_pad l : cell_has_pad (cell_of_lit l) = false.
Proof.
  unfold cell_has_pad, cell_of_lit. cbn [fst snd].
  destruct (Z.eqb_spec (Z.of_nat (fst l)) (-1)) as [H|_]; [lia|].
  destruct (Z.eqb_spec (Z.of_nat (snd l)) (-1)) as [H|_]; [lia|]. reflexivity.
Qed.
Lemma lit_of_cell_of_lit l : lit_of_cell (cell_of_lit l) = l.
Proof. destruct l as [u v]. unfold lit_of_cell, cell_of_lit. cbn [fst snd]. rewrite !Nat2Z.id. reflexivity. Qed.

Lemma query_cell_real x l : (fst l < length x)%nat -> query_cell (zs x ++ [-1]) (cell_of_lit l) = eval_lit x l.
Proof.
  intros H. unfold query_cell, cell_of_lit, eval_lit. cbn [fst snd]. rewrite npget_real by exact H.
  destruct (Nat.eqb_spec (nth (fst l) x 0%nat) (snd l)) as [E|E].
  - rewrite E. apply Z.eqb_refl.
  - apply Z.eqb_neq. lia.
Qed.
Lemma query_cell_pad vals : query_cell (vals ++ [-1]) padcell = true.
Proof. unfold query_cell, padcell. cbn [fst snd]. rewrite npget_pad. reflexivity. Qed.

Lemma conj_all (x : assignment) c : clean_conj (length x) c ->
  forallb (query_cell (zs x ++ [-1])) c = eval_conj x (decode_conj c).
Proof.
  induction c as [|a c IH]; intros Hc; [reflexivity|].
  assert (Hc' : clean_conj (length x) c) by (intros y Hy; apply Hc; right; exact Hy).
  cbn [forallb]. unfold decode_conj. cbn [filter].
  destruct (Hc a (or_introl eq_refl)) as [->|[l [-> Hl]]].
  - rewrite query_cell_pad. cbn [padcell cell_has_pad fst snd Z.eqb orb negb andb]. apply IH. exact Hc'.
  - rewrite cell_of_lit_not_pad. cbn [negb map]. unfold eval_conj. cbn [forallb].
    rewrite lit_of_cell_of_lit, query_cell_real by exact Hl. f_equal. apply IH. exact Hc'.
Qed.

Lemma conj_real n c : clean_conj n c ->
  existsb (fun x => negb (fst x =? -1)) c = negb (forallb cell_is_pad c).
Proof.
  induction c as [|a c IH]; intros Hc; [reflexivity|].
  assert (Hc' : clean_conj n c) by (intros y Hy; apply Hc; right; exact Hy).
  cbn [existsb forallb]. rewrite IH by exact Hc'.
  destruct (Hc a (or_introl eq_refl)) as [->|[l [-> Hl]]].
  - reflexivity.
  - unfold cell_is_pad, cell_of_lit. cbn [fst snd].
    destruct (Z.eqb_spec (Z.of_nat (fst l)) (-1)) as [H|_]; [lia|]. reflexivity.
Qed.

(* query on one stored row = truth value of the formula read back from it *)
Theorem query_row_decode (x : assignment) r : clean_row (length x) r ->
  query_row (zs x ++ [-1]) r = eval_dnf x (decode_row r).
Proof.
  intros Hr. unfold query_row, eval_dnf, decode_row.
  rewrite existsb_map, existsb_filter. apply existsb_ext_in. intros c Hc.
  unfold query_conj. rewrite (conj_all x c (Hr c Hc)), (conj_real _ c (Hr c Hc)). apply andb_comm.
Qed.

(* ---------- encode then decode ---------- *)
Lemma decode_pad_conj C c : decode_conj (pad_conj C c) = c.
Proof.
  unfold decode_conj, pad_conj. rewrite filter_app, map_app.
  rewrite (filter_repeat_false _ padcell) by reflexivity. cbn [map]. rewrite app_nil_r.
  rewrite filter_all_true.
  - rewrite map_map. rewrite <- (map_id c) at 2. apply map_ext. apply lit_of_cell_of_lit.
  - intros a Ha. apply in_map_iff in Ha as [l [<- _]]. rewrite cell_of_lit_not_pad. reflexivity.
Qed.

Lemma pad_conj_not_all_pad C c : c <> [] -> forallb cell_is_pad (pad_conj C c) = false.
Proof.
  intros H. destruct c as [|l c]; [contradiction|]. unfold pad_conj. cbn [map app forallb].
  unfold cell_is_pad at 1, cell_of_lit. cbn [fst snd].
  destruct (Z.eqb_spec (Z.of_nat (fst l)) (-1)) as [E|_]; [lia|]. reflexivity.
Qed.

Theorem decode_pad_row D C f : conj_nonempty f -> decode_row (pad_row D C f) = f.
Proof.
  intros Hne. unfold decode_row, pad_row. rewrite filter_app, map_app.
  rewrite (filter_repeat_false _ (repeat padcell C)).
  2:{ rewrite forallb_repeat by reflexivity. reflexivity. }
  cbn [map]. rewrite app_nil_r. rewrite filter_all_true.
  - rewrite map_map. rewrite <- (map_id f) at 2. apply map_ext. intros c. apply decode_pad_conj.
  - intros a Ha. apply in_map_iff in Ha as [c [<- Hc]]. rewrite pad_conj_not_all_pad; [reflexivity|]. apply Hne. exact Hc.
Qed.

Lemma clean_repeat_pad n k : clean_conj n (repeat padcell k).
Proof. intros x Hx. apply repeat_spec in Hx. left. exact Hx. Qed.

Lemma clean_pad_row n D C f : units_below n f -> clean_row n (pad_row D C f).
Proof.
  intros Hu c Hc. unfold pad_row in Hc. apply in_app_or in Hc as [Hc|Hc].
  - apply in_map_iff in Hc as [c0 [<- Hc0]]. intros x Hx. unfold pad_conj in Hx. apply in_app_or in Hx as [Hx|Hx].
    + apply in_map_iff in Hx as [l [<- Hl]]. right. exists l. split; [reflexivity|]. exact (Hu c0 l Hc0 Hl).
    + apply repeat_spec in Hx. left. exact Hx.
  - apply repeat_spec in Hc. subst c. apply clean_repeat_pad.
Qed.

(* query of a padded row is the truth value of the formula, whatever the padded widths *)
Theorem query_pad_row (x : assignment) D C f : conj_nonempty f -> units_below (length x) f ->
  query_row (zs x ++ [-1]) (pad_row D C f) = eval_dnf x f.
Proof.
  intros Hne Hu. rewrite query_row_decode by (apply clean_pad_row; exact Hu).
  rewrite decode_pad_row by exact Hne. reflexivity.
Qed.

Theorem query_encode (fs : list dnf) (x : assignment) :
  (forall f, In f fs -> conj_nonempty f) -> (forall f, In f fs -> units_below (length x) f) ->
  query (encode fs) (zs x) = map (eval_dnf x) fs.
Proof.
  intros Hne Hu. unfold query, encode. cbn [prow]. rewrite map_map. apply map_ext_in.
  intros f Hf. apply query_pad_row; [apply Hne|apply Hu]; exact Hf.
Qed.

(* rows do not influence each other: a row's answer depends on that row's formula only *)
Theorem query_row_independent (fs1 fs2 : list dnf) (x : assignment) f i j :
  (forall g, In g (f :: fs1 ++ fs2) -> conj_nonempty g /\ units_below (length x) g) ->
  nth_error fs1 i = Some f -> nth_error fs2 j = Some f ->
  nth i (query (encode fs1) (zs x)) false = nth j (query (encode fs2) (zs x)) false.
Proof.
  intros H H1 H2.
  rewrite !query_encode; try (intros g Hg; apply H; right; apply in_or_app; auto).
  assert (E : forall l k, nth_error l k = Some f -> nth k (map (eval_dnf x) l) false = eval_dnf x f).
  { intros l k Hk. apply nth_error_split in Hk as [l1 [l2 [-> <-]]].
    rewrite map_app, app_nth2; rewrite map_length; [|lia]. rewrite Nat.sub_diag. reflexivity. }
  rewrite (E fs1 i H1), (E fs2 j H2). reflexivity.
Qed.

(* ---------- argwhere ---------- *)
Lemma argwhere_from_spec k bs i : In i (argwhere_from k bs) <-> (k <= i)%nat /\ nth (i - k) bs false = true.
Proof.
  revert k. induction bs as [|b t IH]; intros k; cbn [argwhere_from].
  - split; [intros []|]. intros [_ H]. destruct (i - k)%nat; discriminate.
  - rewrite in_app_iff, IH. split.
    + intros [H|[H1 H2]].
      * destruct b; [|destruct H]. destruct H as [<-|[]]. rewrite Nat.sub_diag. split; [lia|reflexivity].
      * split; [lia|]. replace (i - k)%nat with (S (i - S k)) by lia. exact H2.
    + intros [H1 H2]. destruct (Nat.eq_dec i k) as [->|Hne].
      * rewrite Nat.sub_diag in H2. cbn [nth] in H2. subst b. left. left. reflexivity.
      * right. split; [lia|]. replace (i - k)%nat with (S (i - S k)) in H2 by lia. exact H2.
Qed.

Theorem argwhere_spec bs i : In i (argwhere bs) <-> nth i bs false = true.
Proof. unfold argwhere. rewrite argwhere_from_spec, Nat.sub_0_r. split; [intros [_ H]; exact H|intros H; split; [lia|exact H]]. Qed.

Lemma argwhere_from_sorted k bs : StronglySorted lt (argwhere_from k bs).
Proof.
  revert k. induction bs as [|b t IH]; intros k; cbn [argwhere_from]; [constructor|].
  destruct b; cbn [app]; [|apply IH]. constructor; [apply IH|].
  apply Forall_forall. intros i Hi. apply argwhere_from_spec in Hi. lia.
Qed.
Theorem argwhere_sorted bs : StronglySorted lt (argwhere bs).
Proof. apply argwhere_from_sorted. Qed.

(* ---------- mapping encoding ---------- *)
Lemma from_mapping_length n m : length (from_mapping n m) = n.
Proof. unfold from_mapping. rewrite map_length, seq_length. reflexivity. Qed.
Lemma from_mapping_nth n m u : (u < n)%nat ->
  nth u (from_mapping n m) 0%nat = match assoc u m with Some c => c | None => 0%nat end.
Proof.
  intros H. unfold from_mapping.
  rewrite (nth_indep _ 0%nat ((fun u => match assoc u m with Some c => c | None => 0%nat end) 0%nat))
    by (rewrite map_length, seq_length; exact H).
  rewrite (map_nth (fun u => match assoc u m with Some c => c | None => 0%nat end)), seq_nth by exact H. reflexivity.
Qed.

Lemma nth_map_nth_error {A} (g : A -> bool) l k :
  nth k (map g l) false = match nth_error l k with Some a => g a | None => false end.
Proof. revert k; induction l as [|a l IH]; intros [|k]; cbn; auto. Qed.

Theorem query_int_spec (fs : list dnf) (x : assignment) :
  (forall f, In f fs -> conj_nonempty f) -> (forall f, In f fs -> units_below (length x) f) ->
  (forall i, In i (query_int (encode fs) (zs x)) <-> exists f, nth_error fs i = Some f /\ eval_dnf x f = true)
  /\ StronglySorted lt (query_int (encode fs) (zs x)).
Proof.
  intros Hne Hu. split; [|apply argwhere_sorted].
  intros i. unfold query_int. rewrite query_encode by assumption. rewrite argwhere_spec, nth_map_nth_error.
  destruct (nth_error fs i) as [f|].
  - split; [intros H; exists f; split; [reflexivity|exact H]|intros [g [E H]]; injection E as ->; exact H].
  - split; [discriminate|intros [g [E _]]; discriminate].
Qed.
